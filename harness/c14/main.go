// Command c14 is the correspondence driver of property C14 (cluster manager
// never oversubscribes machines nor leaks capacity or requests).
//
//	(i)  schedule() is called directly (hook VerifC14Schedule) on real
//	     scheduleRequestQ/machineQ heaps: a random sample, and an exhaustive
//	     sweep of a finite space (all multisets of <= 4 requests x <= 4
//	     machines in the thorough tier);
//	(ii) a live machineManager.Do over bigmachine/testsystem is driven in
//	     lock-step: one event (offer, cancel, done ok/remote/transport, let a
//	     start batch through, kill a machine, probation timeout), then the
//	     driver waits until the manager is quiescent (goroutine dump: Do parked
//	     in its select, every startMachines call parked at the driver's gate,
//	     every stop-watcher parked) and takes deliveries one at a time with
//	     non-blocking receives, so the order of grants is the order of Do's sends.
//
// Every case holds the input and what was observed; coq/C14/Corr.v judges.
package main

import (
	"context"
	"fmt"
	"io"
	stdlog "log"
	"os"
	"regexp"
	"runtime"
	"sort"
	"strconv"
	"strings"
	"sync"
	"sync/atomic"
	"time"

	"github.com/grailbio/base/log"
	"github.com/grailbio/bigmachine"
	"github.com/grailbio/bigmachine/testsystem"
	"github.com/grailbio/bigslice"
	"github.com/grailbio/bigslice/exec"
	"verifharness/vf"
)

// ---------------------------------------------------------------- descriptions

type LiveOp struct {
	K  string `json:"k"`            // offer|cancel|done|release|kill|timeout
	R  int    `json:"r,omitempty"`  // request id
	P  int    `json:"p,omitempty"`  // priority
	N  int    `json:"n,omitempty"`  // procs (offer) / batch size (release)
	C  int    `json:"c,omitempty"`  // done: 0 ok, 1 remote, 2 transport, 3 plain error
	I  int    `json:"i,omitempty"`  // machine id
	Ok int    `json:"ok,omitempty"` // release: machines that come up; -1 = Start fails
}

type Desc struct {
	Kind     string     `json:"kind"` // sched | sweep | live | run
	Mode     string     `json:"mode,omitempty"`
	Reqs     [][2]int   `json:"reqs,omitempty"`
	Machs    [][2]int   `json:"machs,omitempty"`
	MachSets [][][2]int `json:"machsets,omitempty"` // sweep: the machine queues tried against Reqs
	Maxprocs int        `json:"maxprocs,omitempty"`
	LoadNum  int        `json:"loadnum,omitempty"`
	LoadDen  int        `json:"loadden,omitempty"`
	Maxp     int        `json:"maxp,omitempty"`
	Ops      []LiveOp   `json:"ops,omitempty"`
}

// ---------------------------------------------------------------- (i) schedule()

func keyList(ks [][2]int) string {
	ss := make([]string, len(ks))
	for i, k := range ks {
		ss[i] = vf.Tuple(vf.Z(int64(k[0])), vf.Z(int64(k[1])))
	}
	return vf.List(ss)
}

// sweepCase runs one request queue against every machine queue of d.MachSets.
func sweepCase(d Desc) (c vf.Case) {
	c.Desc = d
	c.Sig = "C14/schedule"
	c.Kind = "sweep/none"
	runs := make([]string, len(d.MachSets))
	granted := 0
	for i, ms := range d.MachSets {
		one := schedCase(Desc{Kind: "sched", Reqs: d.Reqs, Machs: ms})
		runs[i] = vf.Tuple(keyList(ms), one.obsTerm)
		if strings.HasPrefix(one.Kind, "sched/granted") {
			granted++
		}
		if one.Kind == "sched/panic" {
			c.Kind = "sweep/panic"
		}
	}
	if granted > 0 && c.Kind != "sweep/panic" {
		c.Kind = "sweep/some-granted"
	}
	c.Term = vf.App("CSchedMany", keyList(d.Reqs), vf.List(runs))
	if len(d.Reqs) > 0 {
		c.Nontriv = vf.Hash(fmt.Sprint(d.Reqs))
	}
	c.Observed = map[string]interface{}{"configurations": len(d.MachSets), "granted": granted}
	return c
}

type schedResult struct {
	vf.Case
	obsTerm string // the (mkSO ...) term alone
}

func schedCase(d Desc) (c schedResult) {
	c.Desc = d
	c.Sig = "C14/schedule"
	reqs := make([]exec.VerifC14Req, len(d.Reqs))
	for i, r := range d.Reqs {
		reqs[i] = exec.VerifC14Req{Priority: r[0], Procs: r[1]}
	}
	machs := make([]exec.VerifC14Mach, len(d.Machs))
	for i, m := range d.Machs {
		machs[i] = exec.VerifC14Mach{Max: m[0], Load: m[1]}
	}
	var (
		res      exec.VerifC14SchedResult
		panicked bool
	)
	func() {
		defer func() {
			if recover() != nil {
				panicked = true
			}
		}()
		res = exec.VerifC14Schedule(reqs, machs)
	}()
	choice := "None"
	kind := "sched/none"
	if res.Chosen {
		choice = vf.Some(vf.Tuple(
			vf.Tuple(vf.Z(int64(res.Req.Priority)), vf.Z(int64(res.Req.Procs))),
			vf.Tuple(vf.Z(int64(res.Mach.Max)), vf.Z(int64(res.Mach.Load)))))
		kind = "sched/granted"
	}
	ra := make([][2]int, len(res.ReqsAfter))
	for i, r := range res.ReqsAfter {
		ra[i] = [2]int{r.Priority, r.Procs}
	}
	ma := make([][2]int, len(res.MachsAfter))
	for i, m := range res.MachsAfter {
		ma[i] = [2]int{m.Max, m.Load}
	}
	if panicked {
		kind = "sched/panic"
	}
	// a panic shows up as lost queues and failed flags
	c.obsTerm = vf.App("mkSO", choice, keyList(ra), keyList(ma),
		vf.Bool(res.IndexesOK && !panicked), vf.Bool(res.HeapsOK && !panicked), vf.Bool(res.ChosenAtRoot))
	c.Term = vf.App("CSched", keyList(d.Reqs), keyList(d.Machs), c.obsTerm)
	c.Kind = kind
	if len(d.Reqs) > 0 && len(d.Machs) > 0 {
		// interesting when the head request does not simply fit the head machine
		c.Nontriv = vf.Hash(fmt.Sprint(d.Reqs, d.Machs))
		if res.Chosen && !(res.ReqIndex == 0 && res.MachIndex == 0) {
			c.Kind = "sched/granted-not-first-pushed"
		}
	}
	c.Observed = map[string]interface{}{"chosen": res.Chosen, "req": res.Req, "mach": res.Mach}
	return c
}

// multisets of size <= max over keys (as index lists, non-decreasing)
func multisets(nkeys, max int) [][]int {
	var out [][]int
	var rec func(start int, cur []int)
	rec = func(start int, cur []int) {
		out = append(out, append([]int(nil), cur...))
		if len(cur) == max {
			return
		}
		for k := start; k < nkeys; k++ {
			rec(k, append(cur, k))
		}
	}
	rec(0, nil)
	return out
}

// exhaustive sweep: requests over priorities {0..nprio-1} x procs {1..maxprocs},
// machines of capacity maxprocs with load 0..maxprocs.
func sweep(out *vf.Output, nprio, maxprocs, maxreq, maxmach int, grouped bool) int {
	var rkeys, mkeys [][2]int
	for p := 0; p < nprio; p++ {
		for n := 1; n <= maxprocs; n++ {
			rkeys = append(rkeys, [2]int{p, n})
		}
	}
	for l := 0; l <= maxprocs; l++ {
		mkeys = append(mkeys, [2]int{maxprocs, l})
	}
	n := 0
	if grouped {
		// one case per request queue (the case file format counts cases in unary)
		for _, rs := range multisets(len(rkeys), maxreq) {
			d := Desc{Kind: "sweep"}
			for _, k := range rs {
				d.Reqs = append(d.Reqs, rkeys[k])
			}
			for _, ms := range multisets(len(mkeys), maxmach) {
				set := [][2]int{}
				for _, k := range ms {
					set = append(set, mkeys[k])
				}
				d.MachSets = append(d.MachSets, set)
				n++
			}
			out.Add(sweepCase(d))
		}
		return n
	}
	for _, rs := range multisets(len(rkeys), maxreq) {
		for _, ms := range multisets(len(mkeys), maxmach) {
			d := Desc{Kind: "sched"}
			for _, k := range rs {
				d.Reqs = append(d.Reqs, rkeys[k])
			}
			for _, k := range ms {
				d.Machs = append(d.Machs, mkeys[k])
			}
			c := schedCase(d).Case
			c.Kind = "sweep/" + strings.TrimPrefix(c.Kind, "sched/")
			out.Add(c)
			n++
		}
	}
	return n
}

func randomSched(r *vf.Rand) Desc {
	d := Desc{Kind: "sched"}
	nr, nm := r.Range(0, 6), r.Range(0, 6)
	maxcap := r.Range(1, 6)
	same := r.Chance(2, 3) // all machines of the same capacity, as under one manager
	for i := 0; i < nr; i++ {
		d.Reqs = append(d.Reqs, [2]int{r.Range(0, 3), r.Range(1, maxcap)})
	}
	for i := 0; i < nm; i++ {
		mx := maxcap
		if !same {
			mx = r.Range(1, maxcap)
		}
		d.Machs = append(d.Machs, [2]int{mx, r.Range(0, mx)})
	}
	return d
}

// ---------------------------------------------------------------- (ii) live manager

type startReq struct {
	n        int
	release  chan int
	reported bool
}

// gatedSystem is testsystem.System whose Start waits for the driver.
type gatedSystem struct {
	*testsystem.System
	open    bool // Start is not gated
	mu      sync.Mutex
	waiting []*startReq
	all     []*bigmachine.Machine
}

// Read is what bigmachine's OOM monitor tails (the kernel log): testsystem
// opens the real file and the reader goroutine then blocks for ever, one per
// machine. Not supported here, so that no goroutine outlives its case.
func (g *gatedSystem) Read(ctx context.Context, m *bigmachine.Machine, filename string) (io.Reader, error) {
	return nil, fmt.Errorf("verif: Read not supported")
}

func (g *gatedSystem) Start(ctx context.Context, n int) ([]*bigmachine.Machine, error) {
	if g.open {
		return g.System.Start(ctx, n)
	}
	req := &startReq{n: n, release: make(chan int)}
	g.mu.Lock()
	g.waiting = append(g.waiting, req)
	g.mu.Unlock()
	k := <-req.release
	if k < 0 {
		return nil, fmt.Errorf("verif: start refused")
	}
	ms, err := g.System.Start(ctx, k)
	g.mu.Lock()
	g.all = append(g.all, ms...)
	g.mu.Unlock()
	return ms, err
}

var (
	hdr      = regexp.MustCompile(`^goroutine (\d+) \[([^\],]+)`)
	stackBuf = make([]byte, 1<<20)
)

func dump() []string {
	for {
		n := runtime.Stack(stackBuf, true)
		if n < len(stackBuf) {
			return strings.Split(string(stackBuf[:n]), "\n\n")
		}
		stackBuf = make([]byte, 2*len(stackBuf))
	}
}

func goroutineIDs() map[string]bool {
	ids := map[string]bool{}
	for _, g := range dump() {
		if m := hdr.FindStringSubmatch(g); m != nil {
			ids[m[1]] = true
		}
	}
	return ids
}

// quiet reports whether the manager of the current case is quiescent.
func quiet(ignore map[string]bool) bool {
	nDo := 0
	for _, g := range dump() {
		m := hdr.FindStringSubmatch(g)
		if m == nil || ignore[m[1]] {
			continue
		}
		state := m[2]
		top := ""
		if i := strings.IndexByte(g, '\n'); i >= 0 {
			top = g[i+1:]
			if j := strings.IndexByte(top, '\n'); j >= 0 {
				top = top[:j]
			}
		}
		switch {
		case strings.Contains(g, "exec.(*machineManager).Do("):
			nDo++
			if state != "select" || !strings.Contains(top, "exec.(*machineManager).Do(") {
				return false
			}
		case strings.Contains(g, "exec.startMachines("):
			if state != "chan receive" || !strings.Contains(top, "gatedSystem).Start(") {
				return false
			}
		case strings.Contains(g, "exec.(*machineManager).Do.func"):
			if state != "chan receive" || !strings.Contains(top, "exec.(*machineManager).Do.func") {
				return false
			}
		case strings.Contains(g, "main.(*live).inject.func"):
			return false
		}
	}
	return nDo == 1
}

type reqInfo struct {
	prio, procs int
	state       int // 0 queued, 1 granted, 2 cancelled, 3 returned
	mid         int
	offer       *exec.VerifC14Offer
}

type live struct {
	sys     *gatedSystem
	b       *bigmachine.B
	mgr     *exec.VerifC14Manager
	cancel  func()
	done    chan struct{}
	ignore  map[string]bool
	reqs    map[int]*reqInfo
	rids    []int
	seen    map[int]*exec.VerifC14Machine
	killed  map[int]bool
	status  int // 0 ok, 1 Do panicked/returned, 2 watchdog
	nextRid int
}

const watchdog = 30 * time.Second

// settle waits for quiescence (twice in a row). false = Do died or watchdog.
func (l *live) settle() bool {
	deadline := time.Now().Add(watchdog)
	ok := 0
	for ok < 2 {
		select {
		case <-l.done:
			l.status = 1
			return false
		default:
		}
		if quiet(l.ignore) {
			ok++
		} else {
			ok = 0
			if time.Now().After(deadline) {
				l.status = 2
				return false
			}
		}
		runtime.Gosched()
	}
	return true
}

// inject runs a call into the manager that blocks until Do takes it.
func (l *live) inject(f func()) bool {
	c := make(chan struct{})
	go func() { f(); close(c) }()
	select {
	case <-c:
		return true
	case <-l.done:
		l.status = 1
	case <-time.After(watchdog):
		l.status = 2
	}
	return false
}

func (l *live) midOf(m *exec.VerifC14Machine) int {
	l.sys.mu.Lock()
	defer l.sys.mu.Unlock()
	for i, bm := range l.sys.all {
		if bm == m.BM() {
			return i
		}
	}
	return -1
}

// drain: settle, then take deliveries one at a time until nothing moves.
func (l *live) drain() (grants [][2]int, ok bool) {
	for {
		if !l.settle() {
			return grants, false
		}
		progressed := false
		for _, r := range l.rids {
			ri := l.reqs[r]
			if ri.state != 0 {
				continue
			}
			if m, got := ri.offer.TryRecv(); got {
				mid := l.midOf(m)
				if _, known := l.seen[mid]; !known {
					l.seen[mid] = m
				}
				ri.state, ri.mid = 1, mid
				grants = append(grants, [2]int{r, mid})
				progressed = true
				break
			}
		}
		if !progressed {
			return grants, true
		}
	}
}

func newLive(maxprocs, maxp int, maxLoad float64) *live {
	l := &live{reqs: map[int]*reqInfo{}, seen: map[int]*exec.VerifC14Machine{}, killed: map[int]bool{}}
	l.ignore = goroutineIDs()
	l.sys = &gatedSystem{System: testsystem.New()}
	l.sys.Machineprocs = maxprocs
	l.sys.KeepalivePeriod = time.Hour
	l.sys.KeepaliveTimeout = 2 * time.Hour
	l.sys.KeepaliveRpcTimeout = time.Hour
	l.b = bigmachine.Start(l.sys)
	l.mgr = exec.VerifC14NewManager(l.b, maxp, maxLoad)
	ctx, cancel := context.WithCancel(context.Background())
	l.cancel = cancel
	l.done = make(chan struct{})
	go func() {
		defer close(l.done)
		defer func() { _ = recover() }()
		l.mgr.Do(ctx)
	}()
	return l
}

func (l *live) liveMachines() []int {
	l.sys.mu.Lock()
	n := len(l.sys.all)
	l.sys.mu.Unlock()
	var out []int
	for i := 0; i < n; i++ {
		if !l.killed[i] {
			out = append(out, i)
		}
	}
	return out
}

func (l *live) waitingSizes() []int {
	l.sys.mu.Lock()
	defer l.sys.mu.Unlock()
	var out []int
	for _, w := range l.sys.waiting {
		out = append(out, w.n)
	}
	sort.Ints(out)
	return out
}

// apply performs one op; valid=false means the op does not apply in the
// current state (after shrinking) and was skipped.
func (l *live) apply(op LiveOp) (valid bool) {
	switch op.K {
	case "offer":
		if op.N <= 0 || l.reqs[op.R] != nil {
			return false
		}
		ri := &reqInfo{prio: op.P, procs: op.N}
		if !l.inject(func() { ri.offer = l.mgr.Offer(op.P, op.N) }) {
			return true
		}
		l.reqs[op.R] = ri
		l.rids = append(l.rids, op.R)
	case "cancel":
		ri := l.reqs[op.R]
		if ri == nil || ri.state == 2 {
			return false
		}
		if !l.inject(func() { ri.offer.Cancel() }) {
			return true
		}
		if ri.state == 0 {
			ri.state = 2
		}
	case "done":
		ri := l.reqs[op.R]
		if ri == nil || ri.state != 1 {
			return false
		}
		m := l.seen[ri.mid]
		if !l.inject(func() { m.Done(ri.procs, op.C) }) {
			return true
		}
		ri.state = 3
	case "release":
		l.sys.mu.Lock()
		var w *startReq
		for i, x := range l.sys.waiting {
			if x.n == op.N {
				w = x
				l.sys.waiting = append(l.sys.waiting[:i:i], l.sys.waiting[i+1:]...)
				break
			}
		}
		l.sys.mu.Unlock()
		if w == nil || op.Ok > op.N {
			if w != nil { // put it back
				l.sys.mu.Lock()
				l.sys.waiting = append(l.sys.waiting, w)
				l.sys.mu.Unlock()
			}
			return false
		}
		w.release <- op.Ok
	case "kill":
		l.sys.mu.Lock()
		n := len(l.sys.all)
		var bm *bigmachine.Machine
		if op.I >= 0 && op.I < n {
			bm = l.sys.all[op.I]
		}
		l.sys.mu.Unlock()
		if bm == nil || l.killed[op.I] {
			return false
		}
		l.sys.Kill(bm)
		bm.Cancel()
		<-bm.Wait(bigmachine.Stopped)
		l.killed[op.I] = true
	case "timeout":
		// ProbationTimeout is read when Do re-arms its timer at the top of the
		// loop. Do is parked now; the no-op cancel below (of a request that is
		// no longer queued) makes it iterate and see the new value. The timer
		// then fires through the runtime's timer heap, i.e. not synchronously
		// with Do parking again, so the driver waits (at quiescent points only)
		// until every machine it saw on probation has left probation.
		ri := l.reqs[op.R]
		if ri == nil || ri.state == 0 {
			return false
		}
		_, probation, _ := exec.VerifC14HealthEnum()
		var onProbation []*exec.VerifC14Machine
		for _, m := range l.seen {
			if _, _, h := m.State(); h == probation {
				onProbation = append(onProbation, m)
			}
		}
		exec.ProbationTimeout = -time.Hour
		defer func() { exec.ProbationTimeout = time.Hour }()
		if !l.inject(func() { ri.offer.Cancel() }) {
			return true
		}
		deadline := time.Now().Add(watchdog)
		for {
			if !l.settle() {
				return true
			}
			left := 0
			for _, m := range onProbation {
				if _, _, h := m.State(); h == probation {
					left++
				}
			}
			if left == 0 {
				break
			}
			if time.Now().After(deadline) {
				l.status = 2
				return true
			}
		}
	default:
		return false
	}
	return true
}

func errclassTerm(c int) string {
	switch c {
	case 0:
		return "DOk"
	case 1:
		return "DRemote"
	}
	return "DTransport"
}

func evTerm(op LiveOp) string {
	switch op.K {
	case "offer":
		return vf.App("VOffer", vf.Nat(op.R), vf.Z(int64(op.P)), vf.Z(int64(op.N)))
	case "cancel":
		return vf.App("VCancel", vf.Nat(op.R))
	case "done":
		return vf.App("VDone", vf.Nat(op.R), errclassTerm(op.C))
	case "release":
		ok := op.Ok
		if ok < 0 {
			ok = 0
		}
		return vf.App("VRelease", vf.Z(int64(op.N)), vf.Nat(ok))
	case "kill":
		return vf.App("VKill", vf.Nat(op.I))
	}
	return vf.App("VTimeoutAll", vf.Nat(op.R))
}

// observe reads what is visible at quiescence.
func (l *live) observe(grants [][2]int) string {
	gs := make([]string, len(grants))
	for i, g := range grants {
		gs[i] = vf.Tuple(vf.Nat(g[0]), vf.Nat(g[1]))
	}
	var starts []int
	l.sys.mu.Lock()
	for _, w := range l.sys.waiting {
		if !w.reported {
			w.reported = true
			starts = append(starts, w.n)
		}
	}
	l.sys.mu.Unlock()
	sort.Ints(starts)
	var mids []int
	for i := range l.seen {
		mids = append(mids, i)
	}
	sort.Ints(mids)
	ms := make([]string, len(mids))
	for k, i := range mids {
		tp, _, h := l.seen[i].State()
		ms[k] = vf.Tuple(vf.Nat(i), vf.Tuple(vf.Z(int64(tp)), vf.Nat(h)))
	}
	q := l.mgr.Queued()
	qs := make([][2]int, len(q))
	for i, r := range q {
		qs[i] = [2]int{r.Priority, r.Procs}
	}
	sort.Slice(qs, func(i, j int) bool {
		if qs[i][0] != qs[j][0] {
			return qs[i][0] < qs[j][0]
		}
		return qs[i][1] < qs[j][1]
	})
	return vf.App("mkLO", vf.List(gs), vf.IntList(starts), vf.List(ms), keyList(qs), vf.Z(int64(l.sys.N())))
}

func (l *live) teardown() {
	if l.status == 0 {
		// return everything so that no further machines are wanted, let the
		// gated starts fail, stop the machines, and only then stop Do: no
		// goroutine of this case is left behind.
		for _, r := range l.rids {
			if l.status != 0 {
				break
			}
			ri := l.reqs[r]
			switch ri.state {
			case 0:
				l.inject(func() { ri.offer.Cancel() })
			case 1:
				m := l.seen[ri.mid]
				l.inject(func() { m.Done(ri.procs, 0) })
			}
		}
		// (bounded: a manager whose demand accounting is off keeps asking for machines)
		for round := 0; round < 20 && l.status == 0 && l.settle(); round++ {
			l.sys.mu.Lock()
			ws := l.sys.waiting
			l.sys.waiting = nil
			l.sys.mu.Unlock()
			if len(ws) == 0 {
				break
			}
			for _, w := range ws {
				w.release <- -1
			}
		}
		if l.status == 0 {
			for _, i := range l.liveMachines() {
				bm := l.sys.all[i]
				l.sys.Kill(bm)
				bm.Cancel()
				<-bm.Wait(bigmachine.Stopped)
			}
			l.settle()
		}
	}
	l.cancel()
	select {
	case <-l.done:
	case <-time.After(watchdog):
	}
	l.b.Shutdown()
	l.status = 0
}

type liveCfg struct {
	maxprocs, num, den, maxp int
}

// runLive runs one live case. next yields the ops: from the replayed list, or
// generated against the driver's view of the state.
func runLive(cfg liveCfg, next func(l *live, k int) (LiveOp, bool)) vf.Case {
	exec.ProbationTimeout = time.Hour
	l := newLive(cfg.maxprocs, cfg.maxp, float64(cfg.num)/float64(cfg.den))
	d := Desc{Kind: "live", Maxprocs: cfg.maxprocs, LoadNum: cfg.num, LoadDen: cfg.den, Maxp: cfg.maxp}
	var steps []string
	status := 0
	ngrants, nstarts := 0, 0
	kinds := map[string]bool{}
	func() {
		defer func() {
			if r := recover(); r != nil {
				status = 1
			}
		}()
		if !l.settle() {
			status = l.status
			return
		}
		for k := 0; ; k++ {
			op, more := next(l, k)
			if !more {
				break
			}
			if !l.apply(op) {
				continue
			}
			if l.status != 0 {
				status = l.status
				d.Ops = append(d.Ops, op)
				return
			}
			grants, ok := l.drain()
			if !ok {
				status = l.status
				d.Ops = append(d.Ops, op)
				return
			}
			d.Ops = append(d.Ops, op)
			ngrants += len(grants)
			kinds[op.K] = true
			steps = append(steps, vf.Tuple(evTerm(op), l.observe(grants)))
		}
	}()
	machprocs, maxp2 := l.mgr.Machprocs(), l.mgr.Maxp()
	nstarts = len(l.sys.all)
	l.status = status
	l.teardown()
	c := vf.Case{Desc: d, Sig: "C14/live"}
	c.Term = vf.App("CLive",
		vf.App("mkCfg", vf.Z(int64(cfg.maxprocs)), vf.Z(int64(cfg.num)), vf.Z(int64(cfg.den)), vf.Z(int64(cfg.maxp)),
			vf.Z(int64(machprocs)), vf.Z(int64(maxp2))),
		vf.List(steps), vf.Z(int64(status)))
	c.Kind = fmt.Sprintf("live/load=%d%%/procs=%d", cfg.num*100/cfg.den, cfg.maxprocs)
	if status != 0 {
		c.Kind = "live/aborted"
		c.Sig = fmt.Sprintf("C14/live-status-%d", status)
	}
	if ngrants > 0 {
		c.Nontriv = vf.Hash(c.Term)
	}
	c.Observed = map[string]interface{}{"grants": ngrants, "machines": nstarts, "steps": len(steps), "status": status}
	return c
}

// genOp draws the next op against the driver's view of the case.
func genOp(r *vf.Rand, l *live, machprocs int) LiveOp {
	var queued, granted, offered []int
	for _, id := range l.rids {
		offered = append(offered, id)
		switch l.reqs[id].state {
		case 0:
			queued = append(queued, id)
		case 1:
			granted = append(granted, id)
		}
	}
	waiting := l.waitingSizes()
	alive := l.liveMachines()
	for tries := 0; tries < 50; tries++ {
		x := r.Intn(100)
		if len(waiting) > 0 && r.Chance(1, 2) {
			x = 0
		} else if x < 30 {
			x = 30 + r.Intn(70)
		}
		switch {
		case x < 30 && len(waiting) > 0:
			n := waiting[r.Intn(len(waiting))]
			ok := n
			switch y := r.Intn(10); {
			case y == 0:
				ok = -1
			case y == 1:
				ok = r.Range(0, n)
			}
			return LiveOp{K: "release", N: n, Ok: ok}
		case x < 52:
			n := r.Range(1, machprocs)
			switch y := r.Intn(12); {
			case y < 3:
				n = machprocs // exclusive / clamped
			case y == 3:
				n = machprocs + 1 // can never be placed
			}
			id := l.nextRid
			l.nextRid++
			return LiveOp{K: "offer", R: id, P: r.Range(0, 2), N: n}
		case x < 82 && len(granted) > 0:
			c := 0
			switch y := r.Intn(20); {
			case y < 3:
				c = 1
			case y < 7:
				c = 2
			case y < 9:
				c = 3
			}
			return LiveOp{K: "done", R: granted[r.Intn(len(granted))], C: c}
		case x < 90 && len(offered) > 0:
			if len(queued) > 0 && r.Chance(3, 4) {
				return LiveOp{K: "cancel", R: queued[r.Intn(len(queued))]}
			}
			id := offered[r.Intn(len(offered))]
			if l.reqs[id].state != 2 {
				return LiveOp{K: "cancel", R: id}
			}
		case x < 95 && len(alive) > 0:
			return LiveOp{K: "kill", I: alive[r.Intn(len(alive))]}
		case x >= 95:
			for _, id := range l.rids {
				if l.reqs[id].state != 0 {
					return LiveOp{K: "timeout", R: id}
				}
			}
		}
	}
	id := l.nextRid
	l.nextRid++
	return LiveOp{K: "offer", R: id, P: 0, N: 1}
}

var loads = [][2]int{{3, 10}, {1, 2}, {95, 100}, {0, 1}, {1, 1}, {3, 2}}

func randomLive(r *vf.Rand) vf.Case {
	ld := loads[r.Intn(3)]
	if r.Chance(1, 6) {
		ld = loads[3+r.Intn(3)]
	}
	cfg := liveCfg{maxprocs: []int{1, 2, 4}[r.Intn(3)], num: ld[0], den: ld[1], maxp: r.Range(1, 8)}
	nops := r.Range(6, 22)
	machprocs := cfg.maxprocs * cfg.num / cfg.den
	if machprocs < 1 {
		machprocs = 1
	}
	return runLive(cfg, func(l *live, k int) (LiveOp, bool) {
		if k >= nops {
			return LiveOp{}, false
		}
		return genOp(r, l, machprocs), true
	})
}

func replayLive(d Desc) vf.Case {
	cfg := liveCfg{d.Maxprocs, d.LoadNum, d.LoadDen, d.Maxp}
	return runLive(cfg, func(l *live, k int) (LiveOp, bool) {
		if k >= len(d.Ops) {
			return LiveOp{}, false
		}
		op := d.Ops[k]
		if op.K == "offer" && op.R >= l.nextRid {
			l.nextRid = op.R + 1
		}
		return op, true
	})
}

// ---------------------------------------------------------------- (iii) Run's exit paths

var probeFunc = bigslice.Func(func() bigslice.Slice {
	return bigslice.Const(1, []int{1, 2, 3})
})

// probeBadFunc can be invoked once per probe (by the driver, in Session.Run);
// the next invocation, i.e. its compilation on the worker, panics.
var probeBadCalls int32

var probeBadFunc = bigslice.Func(func() bigslice.Slice {
	if atomic.AddInt32(&probeBadCalls, 1) > 1 {
		panic("verif c14: this Func cannot be compiled on a worker")
	}
	return bigslice.Const(1, []int{1, 2, 3})
})

// probeBigFunc: one task asking for twice the procs of the probe's machines.
var probeBigFunc = bigslice.Func(func() bigslice.Slice {
	slice := bigslice.Const(1, []int{1, 2, 3})
	return bigslice.Map(slice, func(i int) int { return i }, bigslice.Procs(4))
})

var runModes = []struct{ mode, exit string }{
	{"compile-fail", "(XCompileFatal true)"},
	{"big-procs", "(XRan DOk)"},
	{"rerun", "(XRan DOk)"},
	{"run-error", "(XRan DRemote)"},
	{"no-location", "XNoLocation"},
	{"commit-fail", "(XCommitFail true)"},
}

// runCase calls (*bigmachineExecutor).Run directly (hook VerifC14ProbeRun) on
// a one-machine session and observes the machine's taskProcs before and after.
func runCase(d Desc) vf.Case {
	c := vf.Case{Desc: d, Kind: "run/" + d.Mode, Sig: "C14/run-" + d.Mode}
	exit := ""
	for _, m := range runModes {
		if m.mode == d.Mode {
			exit = m.exit
		}
	}
	if exit == "" {
		exit = "XCtxBeforeGrant"
	}
	ignore := goroutineIDs()
	var (
		p      exec.VerifC14RunProbe
		err    error
		failed bool
	)
	func() {
		defer func() {
			if r := recover(); r != nil {
				failed = true
			}
		}()
		sys := &gatedSystem{System: testsystem.New(), open: true}
		sys.Machineprocs = 2
		sys.KeepalivePeriod = time.Hour
		sys.KeepaliveTimeout = 2 * time.Hour
		sys.KeepaliveRpcTimeout = time.Hour
		settle := func() {
			deadline := time.Now().Add(watchdog)
			for ok := 0; ok < 2; {
				if quiet(ignore) {
					ok++
				} else {
					ok = 0
					if time.Now().After(deadline) {
						panic("verif: manager did not settle")
					}
				}
				runtime.Gosched()
			}
		}
		var other []*bigslice.FuncValue
		switch d.Mode {
		case "compile-fail":
			atomic.StoreInt32(&probeBadCalls, 0)
			other = append(other, probeBadFunc)
		case "big-procs":
			other = append(other, probeBigFunc)
		}
		p, err = exec.VerifC14ProbeRun(context.Background(), sys, probeFunc, d.Mode, 1.0, settle, other...)
	}()
	if failed || err != nil {
		// the probe itself did not run: an observation no model exit explains
		p = exec.VerifC14RunProbe{Procs: 0, LoadBefore: 0, LoadAfter: -1}
		c.Kind = "run/aborted"
		c.Sig = "C14/run-probe-aborted"
	}
	if p.LoadAfter > p.LoadBefore {
		c.Sig = "C14/run-" + d.Mode + "-leaks-procs"
	} else if p.LoadAfter < p.LoadBefore && c.Kind != "run/aborted" {
		c.Sig = "C14/run-" + d.Mode + "-returns-too-many-procs"
	}
	c.Term = vf.App("CRun", exit, vf.Z(int64(p.Procs)), vf.Z(int64(p.Machprocs)), vf.Z(int64(p.LoadBefore)), vf.Z(int64(p.LoadAfter)))
	c.Nontriv = vf.Hash(c.Term)
	c.Observed = map[string]interface{}{"procs": p.Procs, "machprocs": p.Machprocs, "load_before": p.LoadBefore,
		"load_after": p.LoadAfter, "task_state": p.State, "task_err": p.Err, "probe_err": fmt.Sprint(err)}
	return c
}

// ---------------------------------------------------------------- main

type nopOut struct{}

func (nopOut) Level() log.Level                    { return log.Off }
func (nopOut) Output(int, log.Level, string) error { return nil }

func main() {
	opts := vf.ParseFlags()
	stdlog.SetOutput(io.Discard)
	log.SetOutputter(nopOut{})
	out := &vf.Output{ID: "C14", Import: "BS.C14.Corr",
		Rule:  "nontrivial = schedule() on non-empty queues, or a live history with at least one delivery",
		Extra: map[string]interface{}{}}
	root := vf.NewRand(opts.Seed)
	if opts.Replay != "" {
		var ds []Desc
		if err := vf.LoadReplay(opts.Replay, &ds); err != nil {
			fmt.Fprintln(os.Stderr, err)
			os.Exit(2)
		}
		for _, d := range ds {
			switch d.Kind {
			case "live":
				out.Add(replayLive(d))
			case "run":
				out.Add(runCase(d))
			case "sweep":
				out.Add(sweepCase(d))
			default:
				out.Add(schedCase(d).Case)
			}
		}
	} else {
		nSched, nLive := 250, 70
		if opts.Tier == "thorough" {
			nSched, nLive = 4000, 1500
		}
		nSched *= opts.Scale
		nLive *= opts.Scale
		var swept int
		if opts.Tier == "thorough" {
			swept = sweep(out, 2, 4, 4, 4, true)
			out.Extra["exhaustive"] = true
			out.Extra["sweep"] = "all multisets of <=4 requests over priorities {0,1} x procs {1..4} and <=4 machines of capacity 4 with load 0..4: " + strconv.Itoa(swept) + " configurations"
		} else {
			swept = sweep(out, 2, 2, 2, 3, false)
			out.Extra["exhaustive"] = false
			out.Extra["sweep"] = "quick: all multisets of <=2 requests over priorities {0,1} x procs {1,2} and <=3 machines of capacity 2: " + strconv.Itoa(swept) + " configurations; the full sweep runs in the thorough tier"
		}
		rs := root.Split()
		for i := 0; i < nSched; i++ {
			r := rs.Split()
			out.Add(schedCase(randomSched(r)).Case)
		}
		rl := root.Split()
		for i := 0; i < nLive; i++ {
			r := rl.Split()
			out.Add(randomLive(r))
		}
		for _, m := range runModes {
			out.Add(runCase(Desc{Kind: "run", Mode: m.mode}))
		}
		out.Notes = append(out.Notes,
			"Run's exit paths on a one-machine session: a Func that fails to compile on the worker and a task with Procs above the machine's task procs (clamped) are run through the session; (*bigmachineExecutor).Run is called directly for four more exits (task ran ok, Worker.Run error, dependency without location, failed combiner commit); the machine's taskProcs is read before and after",
			"live manager driven in lock-step; quiescence from runtime.Stack(all); System.Start gated by the driver so that deliveries possible before a batch comes up are taken first",
			"ProbationTimeout is an event: the variable is set to -1h while Do is parked and Do is poked with a no-op cancel, so every machine on probation times out; otherwise it is 1h")
	}
	if err := out.Write(opts.Out, opts); err != nil {
		fmt.Fprintln(os.Stderr, err)
		os.Exit(2)
	}
}

// Package faultfs registers the file scheme "cfault://": the local file
// implementation rooted in a directory chosen by the driver, which can be told
// to fail the k-th operation of a kind (create, write, close, open, stat, read,
// remove). Derived from the C15 driver's faulty:// implementation.
package faultfs

import (
	"context"
	"errors"
	"io"
	"path/filepath"
	"sync"
	"time"

	"github.com/grailbio/base/file"
)

var ErrInjected = errors.New("verif: injected file fault")

type ctlT struct {
	mu    sync.Mutex
	root  string
	kind  string // operation kind to fail ("" = none)
	k     int    // fail when the per-kind counter reaches k (1-based)
	count map[string]int
	fired int
}

var ctl = &ctlT{count: map[string]int{}}

// Reset sets the root directory and the fault plan (kind "" = no faults).
func Reset(root, kind string, k int) {
	ctl.mu.Lock()
	defer ctl.mu.Unlock()
	ctl.root, ctl.kind, ctl.k, ctl.count, ctl.fired = root, kind, k, map[string]int{}, 0
}

// Fired is the number of injected failures since Reset; Counts the per-kind operation counts.
func Fired() int { ctl.mu.Lock(); defer ctl.mu.Unlock(); return ctl.fired }
func Counts() map[string]int {
	ctl.mu.Lock()
	defer ctl.mu.Unlock()
	m := map[string]int{}
	for k, v := range ctl.count {
		m[k] = v
	}
	return m
}

func tick(kind string) bool {
	ctl.mu.Lock()
	defer ctl.mu.Unlock()
	ctl.count[kind]++
	if kind == ctl.kind && ctl.count[kind] == ctl.k {
		ctl.fired++
		return true
	}
	return false
}

// Real maps a cfault:// path to the real path.
func Real(path string) string {
	_, suffix, err := file.ParsePath(path)
	if err != nil {
		suffix = path
	}
	ctl.mu.Lock()
	defer ctl.mu.Unlock()
	return filepath.Join(ctl.root, suffix)
}

type impl struct{ inner file.Implementation }

func (impl) String() string { return "cfault" }
func (f impl) Open(ctx context.Context, path string, opts ...file.Opts) (file.File, error) {
	if tick("open") {
		return nil, ErrInjected
	}
	in, err := f.inner.Open(ctx, Real(path), opts...)
	if err != nil {
		return nil, err
	}
	return &ffile{inner: in}, nil
}
func (f impl) Create(ctx context.Context, path string, opts ...file.Opts) (file.File, error) {
	if tick("create") {
		return nil, ErrInjected
	}
	in, err := f.inner.Create(ctx, Real(path), opts...)
	if err != nil {
		return nil, err
	}
	return &ffile{inner: in, write: true}, nil
}
func (f impl) List(ctx context.Context, path string, recursive bool) file.Lister {
	return f.inner.List(ctx, Real(path), recursive)
}
func (f impl) Stat(ctx context.Context, path string, opts ...file.Opts) (file.Info, error) {
	if tick("stat") {
		return nil, ErrInjected
	}
	return f.inner.Stat(ctx, Real(path), opts...)
}
func (f impl) Remove(ctx context.Context, path string) error {
	if tick("remove") {
		return ErrInjected
	}
	return f.inner.Remove(ctx, Real(path))
}
func (f impl) Presign(ctx context.Context, path, method string, expiry time.Duration) (string, error) {
	return f.inner.Presign(ctx, Real(path), method, expiry)
}

type ffile struct {
	inner file.File
	write bool
}

func (f *ffile) String() string { return f.inner.String() }
func (f *ffile) Name() string   { return f.inner.Name() }
func (f *ffile) Stat(ctx context.Context) (file.Info, error) {
	if tick("stat") {
		return nil, ErrInjected
	}
	return f.inner.Stat(ctx)
}
func (f *ffile) Reader(ctx context.Context) io.ReadSeeker { return frs{f.inner.Reader(ctx)} }
func (f *ffile) Writer(ctx context.Context) io.Writer     { return fw{f.inner.Writer(ctx)} }
func (f *ffile) Discard(ctx context.Context)              { f.inner.Discard(ctx) }

// A failed close of a file being written behaves as the local implementation's
// own failure path: the temporary file is removed and nothing is published.
func (f *ffile) failClose(ctx context.Context) error {
	if f.write {
		f.inner.Discard(ctx)
	} else {
		_ = f.inner.Close(ctx)
	}
	return ErrInjected
}
func (f *ffile) Close(ctx context.Context) error {
	if tick("close") {
		return f.failClose(ctx)
	}
	return f.inner.Close(ctx)
}
func (f *ffile) CloseNoSync(ctx context.Context) error {
	if tick("close") {
		return f.failClose(ctx)
	}
	if c, ok := f.inner.(interface {
		CloseNoSync(context.Context) error
	}); ok {
		return c.CloseNoSync(ctx)
	}
	return f.inner.Close(ctx)
}

type frs struct{ inner io.ReadSeeker }

func (r frs) Read(p []byte) (int, error) {
	if tick("read") {
		return 0, ErrInjected
	}
	return r.inner.Read(p)
}
func (r frs) Seek(off int64, whence int) (int64, error) { return r.inner.Seek(off, whence) }

type fw struct{ inner io.Writer }

func (w fw) Write(p []byte) (int, error) {
	if tick("write") {
		return 0, ErrInjected
	}
	return w.inner.Write(p)
}

func init() {
	file.RegisterImplementation("cfault", func() file.Implementation {
		return impl{inner: file.NewLocalImplementation()}
	})
}

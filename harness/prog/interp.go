package prog

import (
	"bytes"
	"context"
	"errors"
	"fmt"
	"io"
	"io/ioutil"
	"reflect"
	"runtime"
	"sort"
	"strconv"
	"strings"
	"sync"
	"sync/atomic"

	"github.com/grailbio/bigslice"
	"github.com/grailbio/bigslice/metrics"
	"github.com/grailbio/bigslice/sliceio"
)

// UserCalls counts invocations of map/filter/flatmap user functions in the
// scope of the task running them (observed through Result.Scope, C04/C20).
var UserCalls = metrics.NewCounter()

// Yield makes every user function call runtime.Gosched (schedule perturbation, C19).
var Yield bool

func countCall(ctxv reflect.Value) {
	if Yield {
		runtime.Gosched()
	}
	defer func() { recover() }() // a context without scope (never the case inside a task) is not an error here
	UserCalls.Incr(metrics.ContextScope(ctxv.Interface().(context.Context)), 1)
}

// ---------------------------------------------------------------- cells

var (
	tInt    = reflect.TypeOf(int(0))
	tStr    = reflect.TypeOf("")
	tInts   = reflect.TypeOf([]int(nil))
	tStrs   = reflect.TypeOf([]string(nil))
	tBool   = reflect.TypeOf(true)
	tErr    = reflect.TypeOf((*error)(nil)).Elem()
	tWState = reflect.TypeOf((*wstate)(nil))
	tCtx    = reflect.TypeOf((*context.Context)(nil)).Elem()
)

type wstate struct {
	calls int
	rec   *SideRec
}

func goType(c Col) reflect.Type {
	switch c {
	case "i":
		return tInt
	case "s":
		return tStr
	case "I":
		return tInts
	case "S":
		return tStrs
	}
	panic("bad column kind " + c)
}

// StrOf is the order-preserving, injective string for index z (z >= 0).
func StrOf(z int64) string { return fmt.Sprintf("s%04d", ((z%10000)+10000)%10000) }

// IdxOf inverts StrOf; the empty string (zero value) is index -1 and anything
// else not produced by StrOf is -2.
func IdxOf(s string) int64 {
	if s == "" {
		return -1
	}
	if len(s) != 5 || s[0] != 's' {
		return -2
	}
	n, err := strconv.Atoi(s[1:])
	if err != nil {
		return -2
	}
	return int64(n)
}

// Cell is the canonical form of a cell: scalars are one-element slices,
// groups are sorted ascending (their order is not fixed by the program).
type Cell []int64
type Row []Cell

func cellOf(c Col, v reflect.Value) Cell {
	switch c {
	case "i":
		return Cell{v.Int()}
	case "s":
		return Cell{IdxOf(v.String())}
	case "I":
		out := make(Cell, v.Len())
		for i := range out {
			out[i] = v.Index(i).Int()
		}
		sort.Slice(out, func(a, b int) bool { return out[a] < out[b] })
		return out
	case "S":
		out := make(Cell, v.Len())
		for i := range out {
			out[i] = IdxOf(v.Index(i).String())
		}
		sort.Slice(out, func(a, b int) bool { return out[a] < out[b] })
		return out
	}
	panic("bad column kind")
}

func valueOf(c Col, z int64) reflect.Value {
	switch c {
	case "i":
		return reflect.ValueOf(int(z))
	case "s":
		return reflect.ValueOf(StrOf(z))
	}
	panic("valueOf: not scalar")
}

func mod(x, m int64) int64 { return ((x % m) + m) % m }

// eval evaluates e on Go values (args typed by in).
func (e Expr) eval(in []Col, args []reflect.Value) reflect.Value {
	switch e.K {
	case "col":
		return args[e.I]
	case "addmod":
		return reflect.ValueOf(int(mod(e.E.eval(in, args).Int()+e.A, e.B)))
	case "tostr":
		return reflect.ValueOf(StrOf(mod(e.E.eval(in, args).Int(), 10000)))
	case "toint":
		return reflect.ValueOf(int(IdxOf(e.E.eval(in, args).String())))
	case "sumg":
		s := 0
		for i := 0; i < args[e.I].Len(); i++ {
			s += int(args[e.I].Index(i).Int())
		}
		return reflect.ValueOf(s)
	case "leng":
		return reflect.ValueOf(args[e.I].Len())
	case "const":
		return reflect.ValueOf(int(e.A))
	case "even":
		return reflect.ValueOf(mod(e.E.eval(in, args).Int(), 2) == 0)
	case "lt":
		return reflect.ValueOf(e.E.eval(in, args).Int() < e.A)
	case "true":
		return reflect.ValueOf(true)
	case "false":
		return reflect.ValueOf(false)
	}
	panic("eval: unknown expr " + e.K)
}

// ---------------------------------------------------------------- recorder

// Rec collects what side-effecting operators observed, per (node, shard).
// Workers of the in-process test system share it with the driver.
type Rec struct {
	mu     sync.Mutex
	Writer map[[2]int][]*SideRec // every stream started for (node, shard), in start order
	Scan   map[[2]int][]*SideRec
	Calls  map[string]int // user-function invocation counters: "node:shard" and "node"
}

// SideRec is one (node, shard) stream as seen by a callback.
type SideRec struct {
	Rows   []Row
	EOFs   int  // number of times end-of-stream was signalled
	ErrNil bool // scan: scanner.Err() == nil at the end
	Runs   int  // number of times the stream was started (first call with fresh state)
}

var (
	recMu sync.Mutex
	recs  = map[int]*Rec{}
)

func NewRec(id int) *Rec {
	r := &Rec{Writer: map[[2]int][]*SideRec{}, Scan: map[[2]int][]*SideRec{}, Calls: map[string]int{}}
	recMu.Lock()
	recs[id] = r
	recMu.Unlock()
	return r
}
func DropRec(id int) { recMu.Lock(); delete(recs, id); recMu.Unlock() }
func getRec(id int) *Rec {
	recMu.Lock()
	defer recMu.Unlock()
	r := recs[id]
	if r == nil {
		r = &Rec{Writer: map[[2]int][]*SideRec{}, Scan: map[[2]int][]*SideRec{}, Calls: map[string]int{}}
		recs[id] = r
	}
	return r
}

func (r *Rec) count(node, shard int) int {
	r.mu.Lock()
	defer r.mu.Unlock()
	r.Calls[fmt.Sprintf("%d", node)]++
	k := fmt.Sprintf("%d:%d", node, shard)
	r.Calls[k]++
	return r.Calls[k]
}

// ---------------------------------------------------------------- failures

// UserError is the error user functions return when told to fail.
type UserError struct{ Msg string }

func (e *UserError) Error() string { return e.Msg }

type tempError struct{ msg string }

func (e *tempError) Error() string   { return e.msg }
func (e *tempError) Temporary() bool { return true }

var (
	onceMu   sync.Mutex
	onceDone = map[string]int{}
	fires    = map[int]int{}
)

// Fires is how often an injected failure point of run fired.
func Fires(run int) int { onceMu.Lock(); defer onceMu.Unlock(); return fires[run] }

// FailMsg is the message carried by injected failures.
func FailMsg(run, node int) string { return fmt.Sprintf("verif-user-failure-r%d-n%d", run, node) }

// MakeTemp lets a driver supply how a temporary error is built (errors.E(errors.Temporary,..)).
var MakeTemp = func(msg string) error { return &tempError{msg} }

// Gate, when non-nil, makes a failing ReaderFunc wait on it before it fails (so
// that a driver can let other evaluations pile up behind the task first).
var Gate atomic.Value // of chan struct{}

// FailArmed gates every injected failure (a driver can run a program once
// without failures and let the same closures fail in a later phase).
var FailArmed atomic.Bool

func init() { FailArmed.Store(true) }

// trip reports whether the failure point is reached, and the error/panic to raise.
func trip(f *Fail, run, node, shard, calls int) (fire bool) {
	if f == nil || !FailArmed.Load() {
		return false
	}
	if f.Shard >= 0 && f.Shard != shard {
		return false
	}
	if calls < f.Row {
		return false
	}
	onceMu.Lock()
	defer onceMu.Unlock()
	if f.Once {
		k := fmt.Sprintf("%d/%d/%d", run, node, shard)
		times := f.Times
		if times < 1 {
			times = 1
		}
		if onceDone[k] >= times {
			return false
		}
		onceDone[k]++
	}
	fires[run]++
	return true
}

func raise(f *Fail, run, node int) error {
	msg := FailMsg(run, node)
	switch f.Mode {
	case "panic":
		panic(msg)
	case "temp":
		return MakeTemp(msg)
	default:
		return &UserError{msg}
	}
}

// ---------------------------------------------------------------- interpreter

// Env configures how a program is instantiated.
type Env struct {
	Run      int              // recorder / failure id
	CacheDir string           // prefix directory for cache operators
	Args     []bigslice.Slice // values for "arg" nodes (Results of earlier runs)
	Ctx      context.Context
}

// Build turns the program into real slices (sharing preserved) and returns the root.
func Build(p Prog, env Env) bigslice.Slice {
	bigslice.Helper()
	schemas, err := p.Schemas()
	if err != nil {
		panic(err)
	}
	if env.Ctx == nil {
		env.Ctx = context.Background()
	}
	built := make([]bigslice.Slice, len(p.Nodes))
	for k := range p.Nodes {
		built[k] = buildNode(p, schemas, built, k, env)
	}
	return built[len(built)-1]
}

func prags(n Node) []bigslice.Pragma {
	switch n.Prag {
	case "mat":
		return []bigslice.Pragma{bigslice.ExperimentalMaterialize}
	case "procs2":
		return []bigslice.Pragma{bigslice.Procs(2)}
	case "excl":
		return []bigslice.Pragma{bigslice.Exclusive}
	}
	return nil
}

func goTypes(cs []Col) []reflect.Type {
	ts := make([]reflect.Type, len(cs))
	for i, c := range cs {
		ts[i] = goType(c)
	}
	return ts
}

// ReaderRows is the rows a readerfunc node produces for a shard (the meaning
// mirrored by the Coq semantics): count = (A + shard*B) mod 150,
// row i = ((shard*7 + i*3) mod 23, i).
func ReaderRows(n Node, shard int) [][2]int64 {
	cnt := int(mod(n.A+int64(shard)*n.B, 150))
	rows := make([][2]int64, cnt)
	for i := range rows {
		rows[i] = [2]int64{mod(int64(shard)*7+int64(i)*3, 23), int64(i)}
	}
	return rows
}

func buildNode(p Prog, schemas []Schema, built []bigslice.Slice, k int, env Env) bigslice.Slice {
	bigslice.Helper()
	n := p.Nodes[k]
	in := func(j int) bigslice.Slice { return built[n.In[j]] }
	ins := func(j int) Schema { return schemas[n.In[j]] }
	rec := getRec(env.Run)
	switch n.Op {
	case "arg":
		return env.Args[0]
	case "const":
		cols := make([]interface{}, len(n.Types))
		for c, t := range n.Types {
			s := reflect.MakeSlice(reflect.SliceOf(goType(t)), len(n.Cols[c]), len(n.Cols[c]))
			for i, z := range n.Cols[c] {
				s.Index(i).Set(valueOf(t, z))
			}
			cols[c] = s.Interface()
		}
		return bigslice.Const(n.N, cols...)
	case "readerfunc":
		type rstate struct{ pos, call int }
		ft := reflect.FuncOf([]reflect.Type{tInt, reflect.TypeOf((*rstate)(nil)), reflect.SliceOf(goType(n.Types[0])), reflect.SliceOf(tInt)},
			[]reflect.Type{tInt, tErr}, false)
		pattern := []int{3, 0, 128, 1, 7, 0, 0, 200, 2}
		fn := reflect.MakeFunc(ft, func(args []reflect.Value) []reflect.Value {
			shard := int(args[0].Int())
			st := args[1].Interface().(*rstate)
			rows := ReaderRows(n, shard)
			c := rec.count(k, shard)
			if trip(n.Fail, env.Run, k, shard, c) {
				if g, ok := Gate.Load().(chan struct{}); ok && g != nil {
					<-g
				}
				m := 0
				if n.Fail.WithRows {
					for m < 2 && m < args[2].Len() && st.pos+m < len(rows) {
						args[2].Index(m).Set(valueOf(n.Types[0], rows[st.pos+m][0]))
						args[3].Index(m).SetInt(rows[st.pos+m][1])
						m++
					}
					st.pos += m
				}
				return []reflect.Value{reflect.ValueOf(m), reflect.ValueOf(raise(n.Fail, env.Run, k)).Convert(tErr)}
			}
			want := pattern[(st.call+n.N2)%len(pattern)]
			st.call++
			m := args[2].Len()
			if want < m {
				m = want
			}
			if rest := len(rows) - st.pos; rest < m {
				m = rest
			}
			for i := 0; i < m; i++ {
				args[2].Index(i).Set(valueOf(n.Types[0], rows[st.pos+i][0]))
				args[3].Index(i).SetInt(rows[st.pos+i][1])
			}
			st.pos += m
			var err error
			// half of the readers signal EOF together with the last rows
			if st.pos == len(rows) && (n.N2%2 == 0 || m == 0) {
				err = sliceio.EOF
			}
			ev := reflect.Zero(tErr)
			if err != nil {
				ev = reflect.ValueOf(err).Convert(tErr)
			}
			return []reflect.Value{reflect.ValueOf(m), ev}
		})
		return bigslice.ReaderFunc(n.N, fn.Interface(), prags(n)...)
	case "scanreader":
		var b bytes.Buffer
		for _, z := range n.Cols[0] {
			b.WriteString(StrOf(z))
			b.WriteByte('\n')
		}
		data := b.Bytes()
		return bigslice.ScanReader(n.N, func() (io.ReadCloser, error) {
			return ioutil.NopCloser(bytes.NewReader(data)), nil
		})
	case "map":
		is := ins(0)
		ft := reflect.FuncOf(append([]reflect.Type{tCtx}, goTypes(is.Types)...), goTypes(schemas[k].Types), false)
		fn := reflect.MakeFunc(ft, func(args []reflect.Value) []reflect.Value {
			countCall(args[0])
			args = args[1:]
			c := rec.count(k, -1)
			if trip(n.Fail, env.Run, k, -1, c) {
				panicOrErr(n.Fail, env.Run, k)
			}
			out := make([]reflect.Value, len(n.Exprs))
			for i, e := range n.Exprs {
				out[i] = e.eval(is.Types, args)
			}
			return out
		})
		return bigslice.Map(in(0), fn.Interface(), prags(n)...)
	case "filter":
		is := ins(0)
		ft := reflect.FuncOf(append([]reflect.Type{tCtx}, goTypes(is.Types)...), []reflect.Type{tBool}, false)
		fn := reflect.MakeFunc(ft, func(args []reflect.Value) []reflect.Value {
			countCall(args[0])
			args = args[1:]
			c := rec.count(k, -1)
			if trip(n.Fail, env.Run, k, -1, c) {
				panicOrErr(n.Fail, env.Run, k)
			}
			return []reflect.Value{n.Exprs[0].eval(is.Types, args)}
		})
		return bigslice.Filter(in(0), fn.Interface(), prags(n)...)
	case "flatmap":
		is := ins(0)
		outT := make([]reflect.Type, len(schemas[k].Types))
		for i, c := range schemas[k].Types {
			outT[i] = reflect.SliceOf(goType(c))
		}
		ft := reflect.FuncOf(append([]reflect.Type{tCtx}, goTypes(is.Types)...), outT, false)
		fn := reflect.MakeFunc(ft, func(args []reflect.Value) []reflect.Value {
			countCall(args[0])
			args = args[1:]
			c := rec.count(k, -1)
			if trip(n.Fail, env.Run, k, -1, c) {
				panicOrErr(n.Fail, env.Run, k)
			}
			cnt := int(mod(n.Exprs[0].eval(is.Types, args).Int(), 4))
			out := make([]reflect.Value, len(outT))
			for i := range out {
				out[i] = reflect.MakeSlice(outT[i], cnt, cnt)
				for j := 0; j < cnt; j++ {
					if i < len(args) {
						out[i].Index(j).Set(args[i])
					} else {
						out[i].Index(j).SetInt(int64(j))
					}
				}
			}
			return out
		})
		return bigslice.Flatmap(in(0), fn.Interface(), prags(n)...)
	case "fold":
		is := ins(0)
		inT := append([]reflect.Type{tInt}, goTypes(is.Types[1:])...)
		ft := reflect.FuncOf(inT, []reflect.Type{tInt}, false)
		fn := reflect.MakeFunc(ft, func(args []reflect.Value) []reflect.Value {
			c := rec.count(k, -1)
			if trip(n.Fail, env.Run, k, -1, c) {
				panicOrErr(n.Fail, env.Run, k)
			}
			s := args[0].Int()
			for _, a := range args[1:] {
				s += a.Int()
			}
			return []reflect.Value{reflect.ValueOf(int(s))}
		})
		return bigslice.Fold(in(0), fn.Interface())
	case "head":
		return bigslice.Head(in(0), n.N)
	case "reduce":
		is := ins(0)
		vt := is.Types[len(is.Types)-1]
		ft := reflect.FuncOf([]reflect.Type{goType(vt), goType(vt)}, []reflect.Type{goType(vt)}, false)
		fn := reflect.MakeFunc(ft, func(args []reflect.Value) []reflect.Value {
			c := rec.count(k, -1)
			if trip(n.Fail, env.Run, k, -1, c) {
				panicOrErr(n.Fail, env.Run, k)
			}
			a, b := cellOf(vt, args[0])[0], cellOf(vt, args[1])[0]
			var r int64
			switch n.Comb {
			case "sum":
				r = a + b
			case "max":
				r = a
				if b > a {
					r = b
				}
			default:
				r = a
				if b < a {
					r = b
				}
			}
			return []reflect.Value{valueOf(vt, r)}
		})
		return bigslice.Reduce(in(0), fn.Interface())
	case "cogroup":
		ss := make([]bigslice.Slice, len(n.In))
		for j := range ss {
			ss[j] = in(j)
		}
		return bigslice.Cogroup(ss...)
	case "reshuffle":
		return bigslice.Reshuffle(in(0))
	case "reshard":
		return bigslice.Reshard(in(0), n.N)
	case "repartition":
		is := ins(0)
		ft := reflect.FuncOf(append([]reflect.Type{tInt}, goTypes(is.Types)...), []reflect.Type{tInt}, false)
		fn := reflect.MakeFunc(ft, func(args []reflect.Value) []reflect.Value {
			nshard := args[0].Int()
			c := rec.count(k, -1)
			if trip(n.Fail, env.Run, k, -1, c) {
				if n.Fail.Mode == "badpart" {
					return []reflect.Value{reflect.ValueOf(int(nshard))}
				}
				panicOrErr(n.Fail, env.Run, k)
			}
			return []reflect.Value{reflect.ValueOf(int(mod(n.Exprs[0].eval(is.Types, args[1:]).Int(), nshard)))}
		})
		return bigslice.Repartition(in(0), fn.Interface())
	case "prefixed":
		return bigslice.Prefixed(in(0), n.N)
	case "scan":
		is := ins(0)
		return bigslice.Scan(in(0), func(shard int, sc *sliceio.Scanner) error {
			sr := &SideRec{Runs: 1}
			ptrs := make([]interface{}, len(is.Types))
			vals := make([]reflect.Value, len(is.Types))
			for i, c := range is.Types {
				vals[i] = reflect.New(goType(c))
				ptrs[i] = vals[i].Interface()
			}
			for sc.Scan(env.Ctx, ptrs...) {
				c := rec.count(k, shard)
				if trip(n.Fail, env.Run, k, shard, c) {
					if n.Fail.Mode == "panic" {
						panic(FailMsg(env.Run, k))
					}
					return raise(n.Fail, env.Run, k)
				}
				row := make(Row, len(is.Types))
				for i, c := range is.Types {
					row[i] = cellOf(c, vals[i].Elem())
				}
				sr.Rows = append(sr.Rows, row)
			}
			sr.EOFs = 1
			sr.ErrNil = sc.Err() == nil
			rec.mu.Lock()
			rec.Scan[[2]int{k, shard}] = append(rec.Scan[[2]int{k, shard}], sr)
			rec.mu.Unlock()
			return sc.Err()
		})
	case "writerfunc":
		is := ins(0)
		inT := []reflect.Type{tInt, tWState, tErr}
		for _, c := range is.Types {
			inT = append(inT, reflect.SliceOf(goType(c)))
		}
		ft := reflect.FuncOf(inT, []reflect.Type{tErr}, false)
		fn := reflect.MakeFunc(ft, func(args []reflect.Value) []reflect.Value {
			shard := int(args[0].Int())
			st := args[1].Interface().(*wstate)
			rec.mu.Lock()
			key := [2]int{k, shard}
			if st.calls == 0 {
				// fresh state = a new stream (a task attempt); streams are kept apart
				st.rec = &SideRec{Runs: 1, ErrNil: true}
				rec.Writer[key] = append(rec.Writer[key], st.rec)
			}
			sr := st.rec
			st.calls++
			nrows := args[3].Len()
			for i := 0; i < nrows; i++ {
				row := make(Row, len(is.Types))
				for c, ct := range is.Types {
					row[c] = cellOf(ct, args[3+c].Index(i))
				}
				sr.Rows = append(sr.Rows, row)
			}
			if e := args[2].Interface(); e != nil && e.(error) == sliceio.EOF {
				sr.EOFs++
			}
			rec.mu.Unlock()
			c := rec.count(k, shard)
			if n.Fail != nil && n.Fail.AtEOF {
				// fail exactly on the end-of-stream call (where a real writer flushes or closes)
				if e := args[2].Interface(); e == nil || e.(error) != sliceio.EOF {
					return []reflect.Value{reflect.Zero(tErr)}
				}
				c = n.Fail.Row
			}
			if trip(n.Fail, env.Run, k, shard, c) {
				return []reflect.Value{reflect.ValueOf(raise(n.Fail, env.Run, k)).Convert(tErr)}
			}
			return []reflect.Value{reflect.Zero(tErr)}
		})
		return bigslice.WriterFunc(in(0), fn.Interface())
	case "cache":
		return bigslice.Cache(env.Ctx, in(0), env.CacheDir+"/"+n.Cache)
	case "cachepartial":
		return bigslice.CachePartial(env.Ctx, in(0), env.CacheDir+"/"+n.Cache)
	case "readcache":
		return bigslice.ReadCache(env.Ctx, in(0), in(0).NumShard(), env.CacheDir+"/"+n.Cache)
	}
	panic("buildNode: unknown op " + n.Op)
}

func panicOrErr(f *Fail, run, node int) {
	// value-returning user functions (map, filter, ...) can only fail by panicking
	panic(FailMsg(run, node))
}

// ErrClass maps an error to the small enum compared across model and code.
func ErrClass(err error, run int) string {
	if err == nil {
		return "ok"
	}
	s := err.Error()
	switch {
	case strings.Contains(s, fmt.Sprintf("verif-user-failure-r%d-", run)):
		return "user"
	case errors.Is(err, context.DeadlineExceeded) || strings.Contains(s, "deadline"):
		return "timeout"
	}
	return "other"
}

// Package prog is the program-level harness shared by the system properties
// (C01, C04, C06, C12, C13, C19, C02): a gob-encodable AST of slice programs
// over the 16 public operators with user functions drawn from a small menu that
// is interpretable both here (into real bigslice slices, via reflect.MakeFunc)
// and in Coq (coq/C01/Sem.v), a seeded generator of well-typed programs, and
// runners that observe per-shard rows, scanner output and side-effect callbacks.
package prog

import (
	"fmt"
)

// Column kinds: "i" int, "s" string, "I" []int, "S" []string (cogroup groups).
type Col = string

// Expr is a cell expression over an input row.
//
//	col i        the i-th cell unchanged
//	addmod e A B ((e + A) mod B), result in [0,B)        (int)
//	tostr e      string number (e mod 10000)              (int -> string)
//	toint e      index of a string                        (string -> int)
//	sumg i       sum of an int group                      ([]int -> int)
//	leng i       length of a group                        (group -> int)
//	const A      the integer A
//	even e | lt e A | true | false                        predicates
type Expr struct {
	K string
	I int
	A int64
	B int64
	E *Expr
}

// Node is one operator application. In refers to earlier nodes (DAG sharing).
type Node struct {
	Op    string // const readerfunc scanreader map filter flatmap fold head reduce cogroup reshuffle repartition reshard prefixed scan writerfunc cache cachepartial readcache
	In    []int
	N     int       // nshard (const/readerfunc/scanreader/reshard), head count, prefix
	Types []Col     // const / readerfunc column types
	Cols  [][]int64 // const data, column-wise; scanreader: Cols[0] = line ids
	Exprs []Expr    // map outputs; filter: Exprs[0] predicate; flatmap: Exprs[0] count; repartition: Exprs[0]
	Comb  string    // reduce: sum max min
	Prag  string    // "", mat, procs2, excl
	A, B  int64     // readerfunc: rows per shard = (A + shard*B) mod 150 ; chunk pattern seed in N2
	N2    int
	Fail  *Fail  // failure injection (C06)
	Cache string // cache prefix label (C13)
}

// Fail describes an injected user-function failure (used by C06).
type Fail struct {
	Mode  string // error temp panic badpart
	Shard int    // -1 = every shard
	Row   int    // fail when the per-shard invocation counter reaches Row
	Once  bool   // fail only the first time that point is reached in the process
	Times int    // with Once: fail the first Times times instead of once (0 = 1)
	AtEOF bool   // writerfunc: fail on the call that carries end-of-stream (instead of at Row)
	// WithRows: a failing readerfunc call returns its error together with rows (n > 0), as the
	// reader contract allows, instead of with none
	WithRows bool `json:",omitempty"`
}

type Prog struct {
	Nodes []Node
}

// Schema of a node's output.
type Schema struct {
	Types  []Col
	Prefix int
	NShard int
}

func scalar(c Col) bool { return c == "i" || c == "s" }

// TypeOf returns the column kind of e over the input types, or "" if ill-typed.
func (e Expr) TypeOf(in []Col) Col {
	sub := func() Col {
		if e.E == nil {
			return ""
		}
		return e.E.TypeOf(in)
	}
	switch e.K {
	case "col":
		if e.I < 0 || e.I >= len(in) {
			return ""
		}
		return in[e.I]
	case "addmod":
		if sub() == "i" && e.B > 0 {
			return "i"
		}
	case "tostr":
		if sub() == "i" {
			return "s"
		}
	case "toint":
		if sub() == "s" {
			return "i"
		}
	case "sumg":
		if e.I >= 0 && e.I < len(in) && in[e.I] == "I" {
			return "i"
		}
	case "leng":
		if e.I >= 0 && e.I < len(in) && (in[e.I] == "I" || in[e.I] == "S") {
			return "i"
		}
	case "const":
		return "i"
	case "even", "lt":
		if sub() == "i" {
			return "b"
		}
	case "true", "false":
		return "b"
	}
	return ""
}

// Schemas computes every node's schema; it returns an error for ill-formed programs.
func (p Prog) Schemas() ([]Schema, error) {
	out := make([]Schema, len(p.Nodes))
	for k, n := range p.Nodes {
		for _, i := range n.In {
			if i < 0 || i >= k {
				return nil, fmt.Errorf("node %d: bad input %d", k, i)
			}
		}
		in := func(j int) Schema { return out[n.In[j]] }
		need := func(c int) error {
			if len(n.In) != c {
				return fmt.Errorf("node %d (%s): want %d inputs", k, n.Op, c)
			}
			return nil
		}
		keyable := func(s Schema) bool {
			for i := 0; i < s.Prefix; i++ {
				if !scalar(s.Types[i]) {
					return false
				}
			}
			return s.Prefix >= 1 && s.Prefix <= len(s.Types)
		}
		var s Schema
		switch n.Op {
		case "const":
			if n.N < 1 || len(n.Types) == 0 || len(n.Cols) != len(n.Types) {
				return nil, fmt.Errorf("node %d: bad const", k)
			}
			for _, c := range n.Types {
				if !scalar(c) {
					return nil, fmt.Errorf("node %d: const column kind", k)
				}
			}
			s = Schema{n.Types, 1, n.N}
		case "arg": // a Result argument of an earlier run: Types, N = shards, N2 = prefix
			if n.N < 1 || len(n.Types) == 0 || n.N2 < 1 || n.N2 > len(n.Types) {
				return nil, fmt.Errorf("node %d: bad arg", k)
			}
			s = Schema{n.Types, n.N2, n.N}
		case "readerfunc":
			if n.N < 1 || len(n.Types) != 2 || !scalar(n.Types[0]) || n.Types[1] != "i" {
				return nil, fmt.Errorf("node %d: bad readerfunc", k)
			}
			s = Schema{n.Types, 1, n.N}
		case "scanreader":
			if n.N < 1 || len(n.Cols) != 1 {
				return nil, fmt.Errorf("node %d: bad scanreader", k)
			}
			s = Schema{[]Col{"s"}, 1, n.N}
		case "map":
			if err := need(1); err != nil {
				return nil, err
			}
			if len(n.Exprs) == 0 {
				return nil, fmt.Errorf("node %d: map without outputs", k)
			}
			var ts []Col
			for _, e := range n.Exprs {
				t := e.TypeOf(in(0).Types)
				if t == "" || t == "b" {
					return nil, fmt.Errorf("node %d: ill-typed map expr", k)
				}
				ts = append(ts, t)
			}
			// mapSlice embeds its input Slice and does not define Prefix(): the
			// input's prefix is inherited
			if in(0).Prefix > len(ts) {
				return nil, fmt.Errorf("node %d: map output narrower than inherited prefix", k)
			}
			s = Schema{ts, in(0).Prefix, in(0).NShard}
		case "filter":
			if err := need(1); err != nil {
				return nil, err
			}
			if len(n.Exprs) != 1 || n.Exprs[0].TypeOf(in(0).Types) != "b" {
				return nil, fmt.Errorf("node %d: ill-typed filter", k)
			}
			s = in(0)
		case "flatmap":
			if err := need(1); err != nil {
				return nil, err
			}
			if len(n.Exprs) != 1 || n.Exprs[0].TypeOf(in(0).Types) != "i" {
				return nil, fmt.Errorf("node %d: ill-typed flatmap", k)
			}
			s = Schema{append(append([]Col{}, in(0).Types...), "i"), in(0).Prefix, in(0).NShard}
		case "fold":
			if err := need(1); err != nil {
				return nil, err
			}
			is := in(0)
			if len(is.Types) < 2 || !scalar(is.Types[0]) || is.Prefix != 1 {
				return nil, fmt.Errorf("node %d: fold input", k)
			}
			for _, c := range is.Types[1:] {
				if c != "i" {
					return nil, fmt.Errorf("node %d: fold values must be ints", k)
				}
			}
			s = Schema{[]Col{is.Types[0], "i"}, 1, is.NShard}
		case "head":
			if err := need(1); err != nil {
				return nil, err
			}
			s = in(0)
		case "reduce":
			if err := need(1); err != nil {
				return nil, err
			}
			is := in(0)
			if !keyable(is) || len(is.Types)-is.Prefix != 1 || !scalar(is.Types[len(is.Types)-1]) {
				return nil, fmt.Errorf("node %d: reduce input", k)
			}
			if is.Types[len(is.Types)-1] == "s" && n.Comb == "sum" {
				return nil, fmt.Errorf("node %d: sum of strings", k)
			}
			s = is
		case "cogroup":
			if len(n.In) == 0 {
				return nil, fmt.Errorf("node %d: cogroup without inputs", k)
			}
			f := in(0)
			if !keyable(f) {
				return nil, fmt.Errorf("node %d: cogroup key", k)
			}
			ts := append([]Col{}, f.Types[:f.Prefix]...)
			ns := 0
			for j := range n.In {
				is := in(j)
				if is.Prefix != f.Prefix || len(is.Types) < f.Prefix {
					return nil, fmt.Errorf("node %d: cogroup prefix mismatch", k)
				}
				for c := 0; c < f.Prefix; c++ {
					if is.Types[c] != f.Types[c] {
						return nil, fmt.Errorf("node %d: cogroup key types", k)
					}
				}
				for _, c := range is.Types[f.Prefix:] {
					switch c {
					case "i":
						ts = append(ts, "I")
					case "s":
						ts = append(ts, "S")
					default:
						return nil, fmt.Errorf("node %d: nested groups", k)
					}
				}
				if is.NShard > ns {
					ns = is.NShard
				}
			}
			s = Schema{ts, f.Prefix, ns}
		case "reshuffle", "reshard":
			if err := need(1); err != nil {
				return nil, err
			}
			if !keyable(in(0)) {
				return nil, fmt.Errorf("node %d: %s key", k, n.Op)
			}
			s = in(0)
			if n.Op == "reshard" {
				if n.N < 1 {
					return nil, fmt.Errorf("node %d: reshard n", k)
				}
				s.NShard = n.N
			}
		case "repartition":
			if err := need(1); err != nil {
				return nil, err
			}
			if len(n.Exprs) != 1 || n.Exprs[0].TypeOf(in(0).Types) != "i" {
				return nil, fmt.Errorf("node %d: ill-typed repartition", k)
			}
			s = in(0)
		case "prefixed":
			if err := need(1); err != nil {
				return nil, err
			}
			s = in(0)
			if n.N < 1 || n.N > len(s.Types) {
				return nil, fmt.Errorf("node %d: prefix", k)
			}
			s.Prefix = n.N
		case "scan":
			if err := need(1); err != nil {
				return nil, err
			}
			s = Schema{nil, in(0).Prefix, in(0).NShard}
		case "writerfunc", "cache", "cachepartial", "readcache":
			if err := need(1); err != nil {
				return nil, err
			}
			s = in(0)
		default:
			return nil, fmt.Errorf("node %d: unknown op %q", k, n.Op)
		}
		if n.Op != "scan" {
			for _, i := range n.In {
				if len(out[i].Types) == 0 {
					return nil, fmt.Errorf("node %d: consumes a scan", k)
				}
			}
		}
		out[k] = s
	}
	return out, nil
}

package prog

import (
	"context"
	"fmt"
	"reflect"
	"sort"
	"strings"
	"sync/atomic"
	"time"

	"github.com/grailbio/bigmachine/testsystem"
	"github.com/grailbio/bigslice"
	"github.com/grailbio/bigslice/exec"
	"github.com/grailbio/bigslice/frame"
	"github.com/grailbio/bigslice/sliceio"
	"verifharness/vf"
)

// Interp is the one registered Func: it interprets a program AST into slices.
var Interp = bigslice.Func(func(p Prog, run int, cacheDir string) bigslice.Slice {
	return Build(p, Env{Run: run, CacheDir: cacheDir})
})

// InterpArg interprets a program whose node 0 stands for a Result argument.
var InterpArg = bigslice.Func(func(p Prog, run int, cacheDir string, arg bigslice.Slice) bigslice.Slice {
	return BuildWithArg(p, Env{Run: run, CacheDir: cacheDir}, arg)
})

// Cfg is an execution strategy.
type Cfg struct {
	Kind         string // local | bigmachine
	Parallelism  int
	MaxLoad      float64
	MachCombiner bool
	Procs        int // testsystem machine procs
}

func (c Cfg) String() string {
	return fmt.Sprintf("%s/p%d/l%.2f/mc%v/procs%d", c.Kind, c.Parallelism, c.MaxLoad, c.MachCombiner, c.Procs)
}

// Sess is a started session plus what is needed to shut it down.
type Sess struct {
	*exec.Session
	Sys *testsystem.System
	Cfg Cfg
}

func Start(c Cfg) *Sess {
	var opts []exec.Option
	var sys *testsystem.System
	if c.Kind == "bigmachine" {
		sys = testsystem.New()
		if c.Procs > 0 {
			sys.Machineprocs = c.Procs
		}
		sys.KeepalivePeriod = 500 * time.Millisecond
		sys.KeepaliveTimeout = 2 * time.Second
		sys.KeepaliveRpcTimeout = 500 * time.Millisecond
		opts = append(opts, exec.Bigmachine(sys))
	} else {
		opts = append(opts, exec.Local)
	}
	if c.Parallelism > 0 {
		opts = append(opts, exec.Parallelism(c.Parallelism))
	}
	if c.MaxLoad > 0 {
		opts = append(opts, exec.MaxLoad(c.MaxLoad))
	}
	if c.MachCombiner {
		opts = append(opts, exec.MachineCombiners)
	}
	return &Sess{exec.Start(opts...), sys, c}
}

func (s *Sess) Close() {
	s.Session.Shutdown()
}

// Obs is everything observed from one run of one program.
type Obs struct {
	Err     string  // ok | user | timeout | other | panic
	ErrMsg  string  `json:",omitempty"`
	Shards  [][]Row // rows of every root shard, read through the per-shard reader
	ShardEr []string
	Scanned []Row // rows delivered by Result.Scanner, in order
	ScanErr string
	Writer  map[string][]SideRec // "node:shard" -> streams
	Scan    map[string][]SideRec
	Calls   map[string]int
	Counter int64 // UserCalls.Value(Result.Scope())
	Fires   int   // how often an injected failure point fired during this run
	Wall    float64
}

var runCounter int64

func NextRun() int { return int(atomic.AddInt64(&runCounter, 1)) }

// readAll drains a reader with the given destination sizes (cycled).
func ReadAll(ctx context.Context, r sliceio.Reader, types []Col, sizes []int) (rows []Row, err error) {
	defer func() {
		if e := recover(); e != nil {
			err = fmt.Errorf("panic: %v", e)
		}
	}()
	gts := goTypes(types)
	for call := 0; ; call++ {
		n := sizes[call%len(sizes)]
		cols := make([]interface{}, len(gts))
		for i, t := range gts {
			cols[i] = reflect.MakeSlice(reflect.SliceOf(t), n, n).Interface()
		}
		f := frame.Slices(cols...)
		m, e := r.Read(ctx, f)
		for i := 0; i < m; i++ {
			row := make(Row, len(types))
			for c, ct := range types {
				row[c] = cellOf(ct, f.Index(c, i))
			}
			rows = append(rows, row)
		}
		if e == sliceio.EOF {
			return rows, nil
		}
		if e != nil {
			return rows, e
		}
		if call > 1000000 {
			return rows, fmt.Errorf("reader does not terminate")
		}
	}
}

// Observe scans a result: per shard through the hook reader, and as a whole
// through the public Scanner.
func Observe(ctx context.Context, res *exec.Result, sch Schema, run int, o *Obs) {
	nt := exec.VerifNumTasks(res)
	if len(sch.Types) > 0 {
		for s := 0; s < nt; s++ {
			rc := exec.VerifShardReader(res, s)
			rows, err := ReadAll(ctx, rc, sch.Types, []int{3, 128, 1, 200})
			rc.Close()
			o.Shards = append(o.Shards, rows)
			o.ShardEr = append(o.ShardEr, ErrClass(err, run))
		}
		sc := res.Scanner()
		ptrs := make([]interface{}, len(sch.Types))
		vals := make([]reflect.Value, len(sch.Types))
		for i, c := range sch.Types {
			vals[i] = reflect.New(goType(c))
			ptrs[i] = vals[i].Interface()
		}
		for sc.Scan(ctx, ptrs...) {
			row := make(Row, len(sch.Types))
			for i, c := range sch.Types {
				row[i] = cellOf(c, vals[i].Elem())
			}
			o.Scanned = append(o.Scanned, row)
		}
		o.ScanErr = ErrClass(sc.Err(), run)
		sc.Close()
	} else {
		for s := 0; s < nt; s++ {
			o.Shards = append(o.Shards, nil)
			o.ShardEr = append(o.ShardEr, "ok")
		}
		o.ScanErr = "ok"
	}
}

// ScanAcross scans a result with its public Scanner, calls mid() after k rows
// (or at once when k = 0) and keeps scanning; only Scanned/ScanErr are filled.
func ScanAcross(ctx context.Context, res *exec.Result, sch Schema, k int, mid func()) (o Obs) {
	defer func() {
		if e := recover(); e != nil {
			o.ScanErr, o.ErrMsg = "panic", fmt.Sprint(e)
		}
	}()
	o.Err = "ok"
	sc := res.Scanner()
	defer sc.Close()
	ptrs := make([]interface{}, len(sch.Types))
	vals := make([]reflect.Value, len(sch.Types))
	for i, c := range sch.Types {
		vals[i] = reflect.New(goType(c))
		ptrs[i] = vals[i].Interface()
	}
	done := false
	if k == 0 {
		mid()
		done = true
	}
	for sc.Scan(ctx, ptrs...) {
		row := make(Row, len(sch.Types))
		for i, c := range sch.Types {
			row[i] = cellOf(c, vals[i].Elem())
		}
		o.Scanned = append(o.Scanned, row)
		if !done && len(o.Scanned) >= k {
			mid()
			done = true
		}
	}
	o.ScanErr = ErrClass(sc.Err(), 0)
	return o
}

func sideMap(m map[[2]int][]*SideRec) map[string][]SideRec {
	out := map[string][]SideRec{}
	for k, vs := range m {
		for _, v := range vs {
			out[fmt.Sprintf("%d:%d", k[0], k[1])] = append(out[fmt.Sprintf("%d:%d", k[0], k[1])], *v)
		}
	}
	return out
}

// RunOnce runs p in sess with a watchdog and observes the result.
func RunOnce(sess *Sess, p Prog, cacheDir string, timeout time.Duration) (o Obs, res *exec.Result) {
	return runOnce(sess, p, cacheDir, nil, timeout)
}

// RunArgOnce runs a program whose node 0 is {Op:"arg"} over the Result arg.
func RunArgOnce(sess *Sess, p Prog, arg *exec.Result, timeout time.Duration) (o Obs, res *exec.Result) {
	return runOnce(sess, p, "", arg, timeout)
}

func runOnce(sess *Sess, p Prog, cacheDir string, arg *exec.Result, timeout time.Duration) (o Obs, res *exec.Result) {
	run := NextRun()
	rec := NewRec(run)
	defer DropRec(run)
	schemas, err := p.Schemas()
	if err != nil {
		o.Err, o.ErrMsg = "illformed", err.Error()
		return
	}
	ctx, cancel := context.WithTimeout(context.Background(), timeout)
	defer cancel()
	t0 := time.Now()
	type rr struct {
		res *exec.Result
		err error
		pan interface{}
	}
	ch := make(chan rr, 1)
	go func() {
		var r rr
		defer func() {
			if e := recover(); e != nil {
				r.pan = e
			}
			ch <- r
		}()
		if arg != nil {
			r.res, r.err = sess.Run(ctx, InterpArg, p, run, cacheDir, arg)
		} else {
			r.res, r.err = sess.Run(ctx, Interp, p, run, cacheDir)
		}
	}()
	var r rr
	select {
	case r = <-ch:
	case <-time.After(timeout + 5*time.Second):
		o.Err = "hang"
		return
	}
	o.Wall = time.Since(t0).Seconds()
	switch {
	case r.pan != nil:
		o.Err, o.ErrMsg = "panic", fmt.Sprint(r.pan)
	case r.err != nil:
		o.Err, o.ErrMsg = ErrClass(r.err, run), trunc(r.err.Error())
	default:
		o.Err = "ok"
		Observe(ctx, r.res, schemas[len(schemas)-1], run, &o)
		o.Counter = UserCalls.Value(r.res.Scope())
		res = r.res
	}
	o.Fires = Fires(run)
	rec.mu.Lock()
	o.Writer, o.Scan = sideMap(rec.Writer), sideMap(rec.Scan)
	o.Calls = map[string]int{}
	for k, v := range rec.Calls {
		o.Calls[k] = v
	}
	rec.mu.Unlock()
	return
}

func trunc(s string) string {
	if len(s) > 300 {
		return s[:300]
	}
	return s
}

// BuildWithArg is Build for programs whose node 0 is {Op:"arg"} standing for arg.
func BuildWithArg(p Prog, env Env, arg bigslice.Slice) bigslice.Slice {
	bigslice.Helper()
	env.Args = []bigslice.Slice{arg}
	return Build(p, env)
}

// ---------------------------------------------------------------- Coq terms

func cellTerm(c Cell) string {
	xs := make([]int64, len(c))
	copy(xs, c)
	return vf.ZList(xs)
}
func rowTerm(r Row) string {
	ss := make([]string, len(r))
	for i, c := range r {
		ss[i] = cellTerm(c)
	}
	return vf.List(ss)
}
func RowsTerm(rs []Row) string {
	ss := make([]string, len(rs))
	for i, r := range rs {
		ss[i] = rowTerm(r)
	}
	return vf.List(ss)
}
func ShardsTerm(sh [][]Row) string {
	ss := make([]string, len(sh))
	for i, r := range sh {
		ss[i] = RowsTerm(r)
	}
	return vf.List(ss)
}

func colTerm(c Col) string {
	return map[string]string{"i": "TI", "s": "TS", "I": "TGI", "S": "TGS"}[c]
}

func (e Expr) Term() string {
	sub := ""
	if e.E != nil {
		sub = e.E.Term()
	}
	switch e.K {
	case "col":
		return vf.App("ECol", vf.Nat(e.I))
	case "addmod":
		return vf.App("EAddMod", sub, vf.Z(e.A), vf.Z(e.B))
	case "tostr":
		return vf.App("EToStr", sub)
	case "toint":
		return vf.App("EToInt", sub)
	case "sumg":
		return vf.App("ESumG", vf.Nat(e.I))
	case "leng":
		return vf.App("ELenG", vf.Nat(e.I))
	case "const":
		return vf.App("EConst", vf.Z(e.A))
	case "even":
		return vf.App("EEven", sub)
	case "lt":
		return vf.App("ELt", sub, vf.Z(e.A))
	case "true":
		return "ETrue"
	case "false":
		return "EFalse"
	}
	panic("Term: " + e.K)
}

func exprsTerm(es []Expr) string {
	ss := make([]string, len(es))
	for i, e := range es {
		ss[i] = e.Term()
	}
	return vf.List(ss)
}

// Term prints the program as a Coq `prog` (list node).
func (p Prog) Term() string {
	ns := make([]string, len(p.Nodes))
	for k, n := range p.Nodes {
		in := func(j int) string { return vf.Nat(n.In[j]) }
		switch n.Op {
		case "arg":
			ts := make([]string, len(n.Types))
			for i, c := range n.Types {
				ts[i] = colTerm(c)
			}
			ns[k] = vf.App("NArg", vf.Nat(n.N), vf.List(ts), vf.Nat(n.N2))
		case "const":
			ts := make([]string, len(n.Types))
			for i, c := range n.Types {
				ts[i] = colTerm(c)
			}
			ns[k] = vf.App("NConst", vf.Nat(n.N), vf.List(ts), vf.ZListList(n.Cols))
		case "readerfunc":
			ns[k] = vf.App("NReaderFunc", vf.Nat(n.N), colTerm(n.Types[0]), vf.Z(n.A), vf.Z(n.B))
		case "scanreader":
			ns[k] = vf.App("NScanReader", vf.Nat(n.N), vf.ZList(n.Cols[0]))
		case "map":
			ns[k] = vf.App("NMap", in(0), exprsTerm(n.Exprs))
		case "filter":
			ns[k] = vf.App("NFilter", in(0), n.Exprs[0].Term())
		case "flatmap":
			ns[k] = vf.App("NFlatmap", in(0), n.Exprs[0].Term())
		case "fold":
			ns[k] = vf.App("NFold", in(0))
		case "head":
			ns[k] = vf.App("NHead", in(0), vf.Z(int64(n.N)))
		case "reduce":
			ns[k] = vf.App("NReduce", in(0), map[string]string{"sum": "CSum", "max": "CMax", "min": "CMin"}[n.Comb])
		case "cogroup":
			ns[k] = vf.App("NCogroup", vf.NatList(n.In))
		case "reshuffle":
			ns[k] = vf.App("NReshuffle", in(0))
		case "reshard":
			ns[k] = vf.App("NReshard", in(0), vf.Nat(n.N))
		case "repartition":
			ns[k] = vf.App("NRepartition", in(0), n.Exprs[0].Term())
		case "prefixed":
			ns[k] = vf.App("NPrefixed", in(0), vf.Nat(n.N))
		case "scan":
			ns[k] = vf.App("NScan", in(0))
		case "writerfunc":
			ns[k] = vf.App("NWriterFunc", in(0))
		case "cache", "cachepartial", "readcache":
			ns[k] = vf.App("NCache", in(0))
		default:
			panic("Term: op " + n.Op)
		}
	}
	return vf.List(ns)
}

// SideTerm prints side-effect records of the nodes of kind op, sorted by (node, shard):
// list of (node, shard, rows, eofs, errnil, runs).
func SideTerm(m map[string][]SideRec) string {
	keys := make([]string, 0, len(m))
	for k := range m {
		keys = append(keys, k)
	}
	sort.Slice(keys, func(a, b int) bool {
		var n1, s1, n2, s2 int
		fmt.Sscanf(keys[a], "%d:%d", &n1, &s1)
		fmt.Sscanf(keys[b], "%d:%d", &n2, &s2)
		return n1 < n2 || n1 == n2 && s1 < s2
	})
	var ss []string
	for _, k := range keys {
		var n, s int
		fmt.Sscanf(k, "%d:%d", &n, &s)
		for _, r := range m[k] {
			ss = append(ss, vf.App("mkSide", vf.Nat(n), vf.Nat(s), RowsTerm(r.Rows), vf.Nat(r.EOFs), vf.Bool(r.ErrNil), vf.Nat(r.Runs)))
		}
	}
	return vf.List(ss)
}

func errTerm(s string) string {
	return "E" + strings.ToUpper(s[:1]) + s[1:]
}

// ObsTerm prints an observation as a Coq `obs`.
func (o Obs) Term() string {
	se := make([]string, len(o.ShardEr))
	for i, e := range o.ShardEr {
		se[i] = errTerm(e)
	}
	scanErr := o.ScanErr
	if scanErr == "" {
		scanErr = "ok"
	}
	return vf.App("mkObs", errTerm(o.Err), ShardsTerm(o.Shards), vf.List(se), RowsTerm(o.Scanned), errTerm(scanErr),
		SideTerm(o.Writer), SideTerm(o.Scan))
}

package prog

import (
	"verifharness/vf"
)

// GenOpts steers the program generator.
type GenOpts struct {
	MaxNodes   int
	NoHead     bool // Head on an unordered shard is nondeterministic; generator only applies it to ordered inputs anyway
	NoSide     bool // no scan/writerfunc
	NoScanRdr  bool
	Sizes      []int // row counts to choose from for const inputs
	MaxShards  int
	WithPragma bool
}

func DefaultGen() GenOpts {
	return GenOpts{MaxNodes: 7, Sizes: []int{0, 1, 2, 5, 17, 40, 127, 128, 129, 300}, MaxShards: 4, WithPragma: true}
}

type genState struct {
	r       *vf.Rand
	o       GenOpts
	p       Prog
	sch     []Schema
	ordered []bool // are the shards of node k in a deterministic order?
}

func (g *genState) add(n Node, ordered bool) int {
	g.p.Nodes = append(g.p.Nodes, n)
	s, err := g.p.Schemas()
	if err != nil {
		g.p.Nodes = g.p.Nodes[:len(g.p.Nodes)-1]
		return -1
	}
	g.sch = s
	g.ordered = append(g.ordered, ordered)
	return len(g.p.Nodes) - 1
}

func (g *genState) hasAncestor(k int, op string) bool {
	if g.p.Nodes[k].Op == op {
		return true
	}
	for _, i := range g.p.Nodes[k].In {
		if g.hasAncestor(i, op) {
			return true
		}
	}
	return false
}

func (g *genState) shards() int { return g.r.Range(1, g.o.MaxShards) }

func (g *genState) source() int {
	r := g.r
	switch k := r.Intn(10); {
	case k < 6:
		nc := r.Range(1, 3)
		types := make([]Col, nc)
		for i := range types {
			if r.Chance(1, 3) {
				types[i] = "s"
			} else {
				types[i] = "i"
			}
		}
		rows := g.o.Sizes[r.Intn(len(g.o.Sizes))]
		keys := []int{2, 5, 23, 1000}[r.Intn(4)] // skewed / colliding / spread
		cols := make([][]int64, nc)
		for c := range cols {
			cols[c] = make([]int64, rows)
			for i := range cols[c] {
				switch {
				case c == 0:
					cols[c][i] = int64(r.Intn(keys))
				case types[c] == "s":
					cols[c][i] = int64(r.Intn(50))
				default:
					cols[c][i] = int64(r.Range(-20, 100))
				}
			}
		}
		return g.add(Node{Op: "const", N: g.shards(), Types: types, Cols: cols}, true)
	case k < 8 || g.o.NoScanRdr:
		t := "i"
		if r.Chance(1, 3) {
			t = "s"
		}
		return g.add(Node{Op: "readerfunc", N: g.shards(), Types: []Col{t, "i"}, A: int64(r.Pick([]int{r.Intn(40), r.Intn(150), 126 + r.Intn(6)})), B: int64(r.Intn(13)), N2: r.Intn(9), Prag: g.prag()}, true)
	default:
		n := r.Pick([]int{0, 1, 3, 10, 50})
		lines := make([]int64, n)
		for i := range lines {
			lines[i] = int64(r.Intn(200))
		}
		return g.add(Node{Op: "scanreader", N: g.shards(), Cols: [][]int64{lines}}, true)
	}
}

func (g *genState) prag() string {
	if !g.o.WithPragma || !g.r.Chance(1, 5) {
		return ""
	}
	return []string{"mat", "procs2", "excl"}[g.r.Intn(3)]
}

func (g *genState) intExpr(types []Col) *Expr {
	var cands []Expr
	for i, c := range types {
		switch c {
		case "i":
			cands = append(cands, Expr{K: "col", I: i})
		case "s":
			cands = append(cands, Expr{K: "toint", E: &Expr{K: "col", I: i}})
		case "I":
			cands = append(cands, Expr{K: "sumg", I: i}, Expr{K: "leng", I: i})
		case "S":
			cands = append(cands, Expr{K: "leng", I: i})
		}
	}
	if len(cands) == 0 {
		return &Expr{K: "const", A: int64(g.r.Intn(5))}
	}
	e := cands[g.r.Intn(len(cands))]
	return &e
}

// step adds one operator on top of existing nodes; returns false if nothing was added.
func (g *genState) step() bool {
	r := g.r
	k := r.Intn(len(g.p.Nodes))
	s := g.sch[k]
	if len(s.Types) == 0 {
		return false
	}
	keyable := func(s Schema) bool {
		for i := 0; i < s.Prefix && i < len(s.Types); i++ {
			if !scalar(s.Types[i]) {
				return false
			}
		}
		return true
	}
	switch c := r.Intn(100); {
	case c < 16: // map
		nout := r.Range(1, 3)
		if nout < s.Prefix {
			nout = s.Prefix
		}
		exprs := make([]Expr, nout)
		for i := range exprs {
			switch r.Intn(5) {
			case 0:
				exprs[i] = Expr{K: "col", I: r.Intn(len(s.Types))}
			case 1:
				exprs[i] = Expr{K: "addmod", E: g.intExpr(s.Types), A: int64(r.Intn(7)), B: int64(r.Pick([]int{2, 3, 5, 23, 97}))}
			case 2:
				exprs[i] = Expr{K: "tostr", E: g.intExpr(s.Types)}
			case 3:
				exprs[i] = *g.intExpr(s.Types)
			default:
				exprs[i] = Expr{K: "addmod", E: g.intExpr(s.Types), A: 0, B: int64(r.Pick([]int{4, 10, 50}))}
			}
		}
		return g.add(Node{Op: "map", In: []int{k}, Exprs: exprs, Prag: g.prag()}, g.ordered[k]) >= 0
	case c < 24: // filter
		var pred Expr
		switch r.Intn(4) {
		case 0:
			pred = Expr{K: "even", E: g.intExpr(s.Types)}
		case 1:
			pred = Expr{K: "lt", E: g.intExpr(s.Types), A: int64(r.Intn(30))}
		case 2:
			pred = Expr{K: "true"}
		default:
			pred = Expr{K: "false"}
		}
		return g.add(Node{Op: "filter", In: []int{k}, Exprs: []Expr{pred}, Prag: g.prag()}, g.ordered[k]) >= 0
	case c < 31: // flatmap
		return g.add(Node{Op: "flatmap", In: []int{k}, Exprs: []Expr{*g.intExpr(s.Types)}, Prag: g.prag()}, g.ordered[k]) >= 0
	case c < 38: // head (only where the order is fixed)
		// Head stops pulling early, so a writerfunc below it (in the same pipeline)
		// legitimately never sees the rest of its shard: not generated.
		if !g.ordered[k] || g.o.NoHead || g.hasAncestor(k, "writerfunc") {
			return false
		}
		return g.add(Node{Op: "head", In: []int{k}, N: r.Pick([]int{0, 1, 2, 5, 128, 130})}, true) >= 0
	case c < 50: // reduce
		if !keyable(s) || len(s.Types)-s.Prefix != 1 {
			return false
		}
		comb := []string{"sum", "max", "min"}[r.Intn(3)]
		if s.Types[len(s.Types)-1] == "s" && comb == "sum" {
			comb = "max"
		}
		return g.add(Node{Op: "reduce", In: []int{k}, Comb: comb}, true) >= 0
	case c < 57: // fold
		return g.add(Node{Op: "fold", In: []int{k}}, false) >= 0
	case c < 67: // cogroup of 1-3 compatible inputs
		if !keyable(s) {
			return false
		}
		ins := []int{k}
		for j := range g.p.Nodes {
			t := g.sch[j]
			if j == k || len(t.Types) == 0 || t.Prefix != s.Prefix || len(ins) >= 3 || !r.Bool() {
				continue
			}
			ok := len(t.Types) >= t.Prefix
			for q := 0; ok && q < s.Prefix; q++ {
				ok = t.Types[q] == s.Types[q]
			}
			if ok {
				ins = append(ins, j)
			}
		}
		if r.Chance(1, 4) {
			ins = append(ins, k) // the same slice twice
		}
		return g.add(Node{Op: "cogroup", In: ins}, true) >= 0
	case c < 73:
		if !keyable(s) {
			return false
		}
		return g.add(Node{Op: "reshuffle", In: []int{k}}, false) >= 0
	case c < 79:
		if !keyable(s) {
			return false
		}
		n := g.shards()
		return g.add(Node{Op: "reshard", In: []int{k}, N: n}, n == s.NShard && g.ordered[k]) >= 0
	case c < 85:
		return g.add(Node{Op: "repartition", In: []int{k}, Exprs: []Expr{*g.intExpr(s.Types)}}, false) >= 0
	case c < 91:
		p := r.Range(1, len(s.Types))
		return g.add(Node{Op: "prefixed", In: []int{k}, N: p}, g.ordered[k]) >= 0
	case c < 96:
		if g.o.NoSide {
			return false
		}
		return g.add(Node{Op: "writerfunc", In: []int{k}}, g.ordered[k]) >= 0
	default:
		return false
	}
}

// GenDirected builds programs aimed at internal boundaries that random DAGs
// rarely reach: kind 0 = a Flatmap over a ReaderFunc that returns its last rows
// together with EOF, sized so that expansions straddle the 128-row vector;
// kind 2 = a Reduce over hundreds of distinct keys per partition (combining tables grow and rehash);
// kind 1 = a two-input Cogroup whose inputs have more than 128 rows per shard
// and interleaved, different key sets (buffer refills in the middle of the merge).
func GenDirected(r *vf.Rand, kind int) Prog {
	var p Prog
	switch kind % 5 {
	case 3:
		// a keyed aggregation hands its last rows over together with end-of-stream (in-line
		// combining on the local executor; Fold): the Flatmap pipelined after it must still
		// deliver the rows of the last input row, whose expansion straddles the 128-row vector
		nk := r.Pick([]int{43, 86, 129}) // 3 copies per key: 129, 258, 387 rows, one over a multiple of 128
		cols := [][]int64{make([]int64, 2*nk), make([]int64, 2*nk)}
		for i := 0; i < 2*nk; i++ {
			cols[0][i], cols[1][i] = int64(i%nk), int64(1+i%3)
		}
		p.Nodes = append(p.Nodes, Node{Op: "const", N: r.Range(1, 3), Types: []Col{"i", "i"}, Cols: cols})
		p.Nodes = append(p.Nodes, Node{Op: "reshard", In: []int{0}, N: 1})
		agg := Node{Op: "reduce", In: []int{1}, Comb: "sum"}
		if r.Bool() {
			agg = Node{Op: "fold", In: []int{1}}
		}
		p.Nodes = append(p.Nodes, agg)
		if r.Bool() {
			p.Nodes = append(p.Nodes, Node{Op: "map", In: []int{2}, Exprs: []Expr{{K: "col", I: 0}, {K: "col", I: 1}}})
		}
		p.Nodes = append(p.Nodes, Node{Op: "flatmap", In: []int{len(p.Nodes) - 1}, Exprs: []Expr{{K: "const", A: 3}}})
	case 4:
		// keys of two columns whose orders disagree (the first ascending while the second
		// descends), joined from two inputs and grouped from one large one: sorting and
		// merging must compare the key columns lexicographically
		nsh := r.Range(1, 3)
		mk := func(rows int, off int64) Node {
			c := [][]int64{make([]int64, rows), make([]int64, rows), make([]int64, rows)}
			for i := 0; i < rows; i++ {
				c[0][i], c[1][i], c[2][i] = int64(i%7), mod(off-int64(i), 11), int64(i)
			}
			return Node{Op: "const", N: nsh, Types: []Col{"i", "i", "i"}, Cols: c}
		}
		ra := r.Pick([]int{35, 120, 300})
		p.Nodes = append(p.Nodes, mk(ra, 100), Node{Op: "prefixed", In: []int{0}, N: 2})
		if r.Bool() {
			p.Nodes = append(p.Nodes, mk(r.Pick([]int{20, 77}), 5), Node{Op: "prefixed", In: []int{2}, N: 2},
				Node{Op: "cogroup", In: []int{1, 3}})
		} else {
			p.Nodes = append(p.Nodes, Node{Op: "cogroup", In: []int{1}})
		}
	case 2:
		// many distinct keys per partition: combining tables grow (and rehash) several times
		rows := r.Pick([]int{400, 700, 1300})
		keys := int64(r.Pick([]int{150, 300, 600, 1200}))
		cols := [][]int64{make([]int64, rows), make([]int64, rows)}
		for i := 0; i < rows; i++ {
			cols[0][i], cols[1][i] = mod(int64(i)*7, keys), int64(1+i%5)
		}
		p.Nodes = append(p.Nodes, Node{Op: "const", N: r.Range(2, 6), Types: []Col{"i", "i"}, Cols: cols})
		if r.Bool() {
			p.Nodes = append(p.Nodes, Node{Op: "reshard", In: []int{0}, N: r.Range(1, 2)})
		}
		p.Nodes = append(p.Nodes, Node{Op: "reduce", In: []int{len(p.Nodes) - 1}, Comb: "sum"})
	case 0:
		// pick the row count so that, in shard 0, the expansion of the LAST input row
		// straddles a multiple of the 128-row vector
		n2 := 2 * r.Intn(4) // even: EOF comes with the last rows
		col := r.Intn(2)
		b := int64(r.Intn(5))
		var good []int64
		for a := int64(40); a < 150; a++ {
			rows := ReaderRows(Node{A: a, B: b}, 0)
			cum := int64(0)
			for _, rw := range rows[:len(rows)-1] {
				cum += mod(rw[col], 4)
			}
			last := mod(rows[len(rows)-1][col], 4)
			for m := int64(128); m < cum+last; m += 128 {
				if cum < m && m < cum+last {
					good = append(good, a)
				}
			}
		}
		a := int64(r.Range(40, 149))
		if len(good) > 0 {
			a = good[r.Intn(len(good))]
		}
		p.Nodes = append(p.Nodes, Node{Op: "readerfunc", N: r.Range(1, 2), Types: []Col{"i", "i"}, A: a, B: b, N2: n2})
		p.Nodes = append(p.Nodes, Node{Op: "flatmap", In: []int{0}, Exprs: []Expr{{K: "col", I: col}}})
	default:
		// overlapping key sets, one input with key runs crossing the 128-row buffer
		// boundary while the other input holds the same keys
		nsh := r.Range(1, 2)
		rowsA := r.Pick([]int{129, 200, 300, 400, 600})
		ca := [][]int64{make([]int64, rowsA), make([]int64, rowsA)}
		per := int64(r.Range(2, 3))
		for i := 0; i < rowsA; i++ {
			ca[0][i], ca[1][i] = int64(i)/per, int64(i)
		}
		rowsB := r.Pick([]int{40, 129, 260, 301})
		cb := [][]int64{make([]int64, rowsB), make([]int64, rowsB)}
		span := int64(rowsA)/per + 1
		for i := 0; i < rowsB; i++ {
			cb[0][i], cb[1][i] = mod(int64(3*i), span), int64(1000+i)
		}
		p.Nodes = append(p.Nodes, Node{Op: "const", N: nsh, Types: []Col{"i", "i"}, Cols: ca},
			Node{Op: "const", N: nsh, Types: []Col{"i", "i"}, Cols: cb})
		ins := []int{0, 1}
		if r.Bool() {
			ins = []int{1, 0}
		}
		p.Nodes = append(p.Nodes, Node{Op: "cogroup", In: ins})
	}
	return p
}

// Gen generates a well-typed program; the root is the last node.
func Gen(r *vf.Rand, o GenOpts) Prog {
	g := &genState{r: r, o: o}
	for g.source() < 0 {
	}
	if r.Chance(1, 3) {
		g.source()
	}
	target := r.Range(2, o.MaxNodes)
	for tries := 0; len(g.p.Nodes) < target && tries < 200; tries++ {
		g.step()
	}
	// make the last node depend (transitively) on something non-trivial: ensure root is last added.
	if !o.NoSide && r.Chance(1, 8) {
		last := len(g.p.Nodes) - 1
		if len(g.sch[last].Types) > 0 {
			g.add(Node{Op: "scan", In: []int{last}}, true)
		}
	}
	return g.p
}

// Ordered reports, per node, whether the generator considers the shard order fixed.
// (The Coq semantics recomputes this itself; this is only used for statistics.)
func Ordered(p Prog) []bool {
	out := make([]bool, len(p.Nodes))
	for k, n := range p.Nodes {
		in := func() bool { return len(n.In) > 0 && out[n.In[0]] }
		switch n.Op {
		case "const", "readerfunc", "scanreader", "reduce", "cogroup", "scan":
			out[k] = true
		case "fold", "reshuffle", "repartition", "reshard":
			out[k] = false
		default:
			out[k] = in()
		}
	}
	return out
}

// Command c12 exercises Results: scanning them repeatedly and concurrently,
// passing them to later Funcs through pipelined and redistributing operators,
// and discarding them, in random histories on both executors.
package main

import (
	"context"
	"fmt"
	"os"
	"sync"
	"time"

	"github.com/grailbio/bigslice/exec"
	"verifharness/prog"
	"verifharness/vf"
)

// Step of a history.
type Step struct {
	K string `json:"k"` // scan scan2 pipe shuf discard
	G int    `json:"g"` // which consumer program (index into Desc.Consumers) for pipe/shuf
}

type Desc struct {
	Cfg       prog.Cfg    `json:"cfg"`
	Base      prog.Prog   `json:"base"`      // produces the Result
	Consumers []prog.Prog `json:"consumers"` // node 0 is {Op:"arg"}: the Result
	Steps     []Step      `json:"steps"`
}

// combined returns base ++ consumer with the arg node turned into the identity on base's root.
func combined(base, cons prog.Prog) prog.Prog {
	off := len(base.Nodes)
	p := prog.Prog{Nodes: append([]prog.Node{}, base.Nodes...)}
	for i, n := range cons.Nodes {
		m := n
		if i == 0 {
			m = prog.Node{Op: "cache", In: []int{off - 1}} // printed as NCache = identity
		} else {
			m.In = make([]int, len(n.In))
			for j, x := range n.In {
				m.In[j] = x + off
			}
		}
		p.Nodes = append(p.Nodes, m)
	}
	return p
}

func genDesc(r *vf.Rand, i int) Desc {
	g := prog.DefaultGen()
	g.NoSide = true
	g.MaxNodes = 4
	g.Sizes = []int{0, 1, 5, 40, 130}
	var base prog.Prog
	var sch []prog.Schema
	for {
		base = prog.Gen(r, g)
		sch, _ = base.Schemas()
		if len(sch) > 0 && len(sch[len(sch)-1].Types) > 0 {
			break
		}
	}
	root := sch[len(sch)-1]
	arg := prog.Node{Op: "arg", N: root.NShard, Types: root.Types, N2: root.Prefix}
	keyable := true
	for c := 0; c < root.Prefix; c++ {
		if root.Types[c] != "i" && root.Types[c] != "s" {
			keyable = false
		}
	}
	d := Desc{Base: base, Cfg: prog.Cfg{Kind: "local", Parallelism: 4}}
	if i%2 == 1 {
		d.Cfg = prog.Cfg{Kind: "bigmachine", Parallelism: 4, Procs: 2}
	}
	// a pipelined consumer
	d.Consumers = append(d.Consumers, prog.Prog{Nodes: []prog.Node{arg,
		{Op: "filter", In: []int{0}, Exprs: []prog.Expr{{K: "true"}}}}})
	d.Consumers = append(d.Consumers, prog.Prog{Nodes: []prog.Node{arg,
		{Op: "flatmap", In: []int{0}, Exprs: []prog.Expr{{K: "const", A: 2}}}}})
	// redistributing consumers, directly over the Result
	if keyable {
		d.Consumers = append(d.Consumers, prog.Prog{Nodes: []prog.Node{arg, {Op: "reshuffle", In: []int{0}}}})
		d.Consumers = append(d.Consumers, prog.Prog{Nodes: []prog.Node{arg, {Op: "reshard", In: []int{0}, N: root.NShard + 1}}})
		scalarRest := true
		for _, c := range root.Types[root.Prefix:] {
			if c != "i" && c != "s" {
				scalarRest = false
			}
		}
		if scalarRest {
			d.Consumers = append(d.Consumers, prog.Prog{Nodes: []prog.Node{arg, {Op: "cogroup", In: []int{0}}}})
		}
		if len(root.Types)-root.Prefix == 1 && root.Types[len(root.Types)-1] == "i" {
			d.Consumers = append(d.Consumers, prog.Prog{Nodes: []prog.Node{arg, {Op: "reduce", In: []int{0}, Comb: "sum"}}})
		}
	}
	d.Consumers = append(d.Consumers, prog.Prog{Nodes: []prog.Node{arg,
		{Op: "repartition", In: []int{0}, Exprs: []prog.Expr{{K: "const", A: 1}}}}})
	// the same Result used twice inside one later Func: pipelined and through shuffles
	// into different (and equal) shard counts, joined again
	if keyable && scalarRestOf(root) {
		ident := prog.Node{Op: "filter", In: []int{0}, Exprs: []prog.Expr{{K: "true"}}}
		d.Consumers = append(d.Consumers,
			prog.Prog{Nodes: []prog.Node{arg, ident, {Op: "reshard", In: []int{0}, N: 1}, {Op: "cogroup", In: []int{1, 2}}}},
			prog.Prog{Nodes: []prog.Node{arg, {Op: "reshard", In: []int{0}, N: 1}, ident, {Op: "cogroup", In: []int{1, 2}}}},
			prog.Prog{Nodes: []prog.Node{arg, {Op: "reshard", In: []int{0}, N: root.NShard + 1}, {Op: "reshard", In: []int{0}, N: root.NShard + 3}, {Op: "cogroup", In: []int{1, 2}}}},
			prog.Prog{Nodes: []prog.Node{arg, {Op: "reshuffle", In: []int{0}}, {Op: "repartition", In: []int{0}, Exprs: []prog.Expr{{K: "const", A: 0}}}, {Op: "cogroup", In: []int{1, 2}}}})
	}
	n := r.Range(2, 6)
	if i%5 == 4 {
		// directed: the Result is discarded twice (its tasks are then already lost when the second
		// Discard meets them), and used again afterwards
		d.Steps = append(d.Steps, Step{K: "discard"}, Step{K: "discard"}, Step{K: "shuf", G: 2 + r.Intn(len(d.Consumers)-2)}, Step{K: "scan"})
		n = r.Range(0, 2)
	}
	for j := 0; j < n; j++ {
		switch k := r.Intn(10); {
		case k < 2:
			d.Steps = append(d.Steps, Step{K: "scan"})
		case k < 3:
			d.Steps = append(d.Steps, Step{K: "scan2"})
		case k < 5:
			d.Steps = append(d.Steps, Step{K: "pipe", G: r.Intn(2)})
		case k < 8:
			d.Steps = append(d.Steps, Step{K: "shuf", G: 2 + r.Intn(len(d.Consumers)-2)})
		case k < 9:
			d.Steps = append(d.Steps, Step{K: "discard"})
		default:
			d.Steps = append(d.Steps, Step{K: "sdisc", G: r.Pick([]int{0, 1, 3, 10})})
		}
	}
	return d
}

func scalarRestOf(root prog.Schema) bool {
	for _, c := range root.Types[root.Prefix:] {
		if c != "i" && c != "s" {
			return false
		}
	}
	return true
}

func obsTerm(o prog.Obs) string {
	if o.Err == "ok" {
		return o.Term()
	}
	e := o.Err
	return vf.App("mkObs", "E"+string(e[0]-32)+e[1:], "[]", "[]", "[]", "EOk", "[]", "[]")
}

func main() {
	opts := vf.ParseFlags()
	out := &vf.Output{ID: "C12", Import: "BS.C12.Corr",
		Rule: "a generated program (<= 4 operators, no side effects) produces a Result; random histories of 2-6 steps over {scan, two concurrent scans, run a Func over the Result through a pipelined operator (filter, flatmap), run a Func that redistributes the Result directly (reshuffle, reshard, cogroup, reduce, repartition), discard}; local and bigmachine(testsystem); non-trivial = history contains a discard or a redistributing consumer; distinct by description"}
	var descs []Desc
	if opts.Replay != "" {
		if err := vf.LoadReplay(opts.Replay, &descs); err != nil {
			fmt.Fprintln(os.Stderr, err)
			os.Exit(2)
		}
	} else {
		n := 50
		if opts.Tier == "thorough" {
			n = 500
		}
		n *= opts.Scale
		root := vf.NewRand(opts.Seed)
		for i := 0; i < n; i++ {
			descs = append(descs, genDesc(root.Split(), i))
		}
	}
	sessions := map[string]*prog.Sess{}
	defer func() {
		for _, s := range sessions {
			s.Close()
		}
	}()
	ctx := context.Background()
	for _, d := range descs {
		key := d.Cfg.String()
		s := sessions[key]
		if s == nil {
			s = prog.Start(d.Cfg)
			sessions[key] = s
		}
		baseSch, _ := d.Base.Schemas()
		rootSch := baseSch[len(baseSch)-1]
		o0, res := prog.RunOnce(s, d.Base, "", 60*time.Second)
		steps := []string{vf.App("mkStep", "KRun", d.Base.Term(), obsTerm(o0))}
		summary := []string{"run:" + o0.Err}
		nontriv := false
		discarded := false
		wedged := false
		for _, st := range d.Steps {
			if res == nil || wedged {
				break
			}
			switch st.K {
			case "scan", "scan2":
				n := 1
				if st.K == "scan2" {
					n = 2
				}
				obs := make([]prog.Obs, n)
				var wg sync.WaitGroup
				done := make(chan struct{})
				for j := 0; j < n; j++ {
					wg.Add(1)
					go func(j int) {
						defer wg.Done()
						defer func() {
							if e := recover(); e != nil {
								obs[j].Err, obs[j].ErrMsg = "panic", fmt.Sprint(e)
							}
						}()
						obs[j].Err = "ok"
						prog.Observe(ctx, res, rootSch, 0, &obs[j])
						for _, e := range obs[j].ShardEr {
							if e != "ok" {
								obs[j].Err = "other"
							}
						}
						if obs[j].ScanErr != "ok" {
							obs[j].Err = "other"
						}
					}(j)
				}
				go func() { wg.Wait(); close(done) }()
				select {
				case <-done:
				case <-time.After(60 * time.Second):
					for j := range obs {
						obs[j] = prog.Obs{Err: "hang"}
					}
					wedged = true
				}
				for j := 0; j < n; j++ {
					kind := "KScan"
					if discarded {
						kind = "KScanAfterDiscard"
					}
					steps = append(steps, vf.App("mkStep", kind, d.Base.Term(), obsTerm(obs[j])))
					summary = append(summary, st.K+":"+obs[j].Err)
				}
			case "pipe", "shuf":
				cons := d.Consumers[st.G%len(d.Consumers)]
				o := runWithArg(s, cons, res, 60*time.Second)
				steps = append(steps, vf.App("mkStep", "KUse", combined(d.Base, cons).Term(), obsTerm(o)))
				summary = append(summary, st.K+"/"+cons.Nodes[len(cons.Nodes)-1].Op+":"+o.Err)
				if st.K == "shuf" {
					nontriv = true
				}
				if o.Err == "timeout" || o.Err == "hang" {
					wedged = true
				}
			case "sdisc":
				// a scanner opened (and partly read) before a Discard keeps scanning after it
				o := prog.ScanAcross(ctx, res, rootSch, st.G, func() { res.Discard(ctx) })
				steps = append(steps, vf.App("mkStep", "KScanAcrossDiscard", d.Base.Term(), obsTerm2(o)))
				summary = append(summary, fmt.Sprintf("sdisc%d:%s/%s", st.G, o.Err, o.ScanErr))
				discarded = true
				nontriv = true
			case "discard":
				res.Discard(ctx)
				discarded = true
				nontriv = true
				summary = append(summary, "discard")
			}
		}
		if wedged {
			delete(sessions, key)
			go s.Close()
		}
		term := vf.List(steps)
		nt := ""
		if nontriv {
			nt = vf.Hash(term)
		}
		out.Add(vf.Case{Term: term, Desc: d, Sig: "result-reuse/" + d.Cfg.Kind, Nontriv: nt, Kind: d.Cfg.Kind, Observed: summary})
	}
	if err := out.Write(opts.Out, opts); err != nil {
		fmt.Fprintln(os.Stderr, err)
		os.Exit(2)
	}
}

// obsTerm2 keeps the rows scanned also when the scan ended in an error.
func obsTerm2(o prog.Obs) string {
	o.Err = "ok"
	return o.Term()
}

// runWithArg runs a consumer program over a Result argument.
func runWithArg(s *prog.Sess, cons prog.Prog, arg *exec.Result, timeout time.Duration) prog.Obs {
	o, _ := prog.RunArgOnce(s, cons, arg, timeout)
	return o
}

// Command c04 runs each generated program under several execution strategies
// (executor kind, cluster shape, parallelism, max-load, machine combiners,
// internal vector/spill sizes, reader shuffling; pragmas are part of the
// programs) and writes the case file in which Coq compares every run with the
// reference semantics and the user-metric totals with each other.
package main

import (
	"flag"
	"fmt"
	"os"
	"time"

	"github.com/grailbio/bigslice/exec"
	"github.com/grailbio/bigslice/sliceio"
	"verifharness/prog"
	"verifharness/vf"
)

// Strategy = session configuration + process-wide internal knobs.
type Strategy struct {
	Cfg     prog.Cfg `json:"cfg"`
	Chunk   int      `json:"chunk"`
	Spill   int      `json:"spill"`
	Shuffle bool     `json:"shuffle"`
}

type Desc struct {
	Prog  prog.Prog  `json:"prog"`
	Strat []Strategy `json:"strategies"`
}

func (s Strategy) String() string {
	return fmt.Sprintf("%s/chunk%d/spill%d/shuf%v", s.Cfg, s.Chunk, s.Spill, s.Shuffle)
}

var sessionCfgs = []prog.Cfg{
	{Kind: "local", Parallelism: 1},
	{Kind: "local", Parallelism: 8},
	{Kind: "bigmachine", Parallelism: 1, Procs: 1},
	{Kind: "bigmachine", Parallelism: 4, Procs: 2, MaxLoad: 0.5},
	{Kind: "bigmachine", Parallelism: 8, Procs: 4, MaxLoad: 0.95},
	{Kind: "bigmachine", Parallelism: 4, Procs: 2, MachCombiner: true},
	{Kind: "bigmachine", Parallelism: 3, Procs: 1, MachCombiner: true},
}

func apply(s Strategy) {
	// exec reads the chunk size through a pointer to the flag variable
	if err := flag.Set("bigslice-internal-default-chunk-rows", fmt.Sprint(s.Chunk)); err != nil {
		panic(err)
	}
	sliceio.SpillBatchSize = s.Spill
	exec.DoShuffleReaders = s.Shuffle
}

func main() {
	opts := vf.ParseFlags()
	out := &vf.Output{ID: "C04", Import: "BS.C04.Corr",
		Rule: "each generated program (as C01, pragmas included) is run under the default local strategy and 4 strategies drawn from {7 session shapes} x chunk{1,2,4,128} (the combiner's table asserts a power of two) x spill batch{1,2,128} x reader shuffling{on,off}; non-trivial = program has a shuffle and at least two distinct executor kinds were used; distinct by program text + strategies"}
	var descs []Desc
	if opts.Replay != "" {
		if err := vf.LoadReplay(opts.Replay, &descs); err != nil {
			fmt.Fprintln(os.Stderr, err)
			os.Exit(2)
		}
	} else {
		n := 30
		if opts.Tier == "thorough" {
			n = 400
		}
		n *= opts.Scale
		root := vf.NewRand(opts.Seed)
		for i := 0; i < n; i++ {
			r := root.Split()
			g := prog.DefaultGen()
			g.Sizes = []int{0, 1, 5, 17, 127, 128, 129, 300}
			d := Desc{Prog: prog.Gen(r, g)}
			if i%5 == 4 {
				d.Prog = prog.GenDirected(r, 2) // many keys, several shards: stresses producer-side and machine combiners
			}
			if i%5 == 2 {
				d.Prog = prog.GenDirected(r, []int{0, 3, 4, 1}[(i/5)%4]) // boundary-straddling expansions, two-column keys, overlapping cogroups
			}
			d.Strat = append(d.Strat, Strategy{sessionCfgs[1], 128, 128, true})
			for j := 0; j < 4; j++ {
				d.Strat = append(d.Strat, Strategy{sessionCfgs[r.Intn(len(sessionCfgs))], r.Pick([]int{1, 2, 4, 128}), r.Pick([]int{1, 2, 128}), r.Bool()})
			}
			if i%5 == 4 {
				// machine combiners on several single-proc machines, repeated: task placement varies
				d.Strat = []Strategy{{sessionCfgs[1], 128, 128, true}, {sessionCfgs[6], 128, 128, true}, {sessionCfgs[6], 128, 128, false},
					{sessionCfgs[5], 128, 128, true}, {sessionCfgs[6], 128, 128, true}, {sessionCfgs[4], 128, 128, true}}
			}
			descs = append(descs, d)
		}
	}
	sessions := map[string]*prog.Sess{}
	defer func() {
		for _, s := range sessions {
			s.Close()
		}
	}()
	for _, d := range descs {
		var runs []string
		kinds := map[string]bool{}
		var summary []string
		for _, st := range d.Strat {
			key := st.Cfg.String()
			s := sessions[key]
			if s == nil {
				s = prog.Start(st.Cfg)
				sessions[key] = s
			}
			apply(st)
			o, _ := prog.RunOnce(s, d.Prog, "", 20*time.Second)
			if o.Err == "timeout" || o.Err == "hang" {
				// a wedged run keeps procs: do not let it poison later runs
				delete(sessions, key)
				go s.Close()
			}
			kinds[st.Cfg.Kind] = true
			runs = append(runs, vf.Tuple(o.Term(), vf.Z(o.Counter)))
			summary = append(summary, fmt.Sprintf("%s: %s rows=%d calls=%d", st, o.Err, len(o.Scanned), o.Counter))
			if os.Getenv("VERIF_DEBUG") != "" {
				fmt.Fprintf(os.Stderr, "RUN %s %.2fs %s %s\n", st, o.Wall, o.Err, o.ErrMsg)
			}
		}
		apply(Strategy{Chunk: 128, Spill: 128, Shuffle: true})
		term := vf.App("mkCase", d.Prog.Term(), vf.List(runs))
		nontriv := ""
		for _, n := range d.Prog.Nodes {
			switch n.Op {
			case "reduce", "fold", "cogroup", "reshuffle", "reshard", "repartition":
				if len(kinds) > 1 {
					nontriv = vf.Hash(term)
				}
			}
		}
		out.Add(vf.Case{Term: term, Desc: d, Sig: "config-dependence", Nontriv: nontriv, Kind: d.Prog.Nodes[len(d.Prog.Nodes)-1].Op, Observed: summary})
	}
	if err := out.Write(opts.Out, opts); err != nil {
		fmt.Fprintln(os.Stderr, err)
		os.Exit(2)
	}
}

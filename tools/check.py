#!/usr/bin/env python3
"""check.py Cxx [--tier quick|thorough] [--replay FILE] [--seed N]

One entry point for every property.  Per run:
  1. regenerate coq/Gen/*.v from /repo's Go source (tools/goparams);
  2. `make` the property's proof cone (a full .vo build, never -vos) and re-check
     coq/Properties/Cxx.v so that Print Assumptions is re-read;
  3. build the property's Go driver against /repo's working tree (tag verif) and run
     it: it writes work/Cxx/cases_Cxx.v holding inputs AND observed outputs;
  4. coqc evaluates the model on those cases (vm_compute) and prints
        MISMATCH (model /= implementation)  and  VIOL (spec checker false on the
        implementation's observable behaviour);
  5. verdict as in DESIGN.md section 5; evidence/Cxx.json is rewritten.
Exit 0 = held on everything explored; exit 1 + "VIOLATION property=Cxx replay=..." otherwise.
"""
import argparse, fcntl, hashlib, json, os, re, shutil, subprocess, sys, time

V = "/verif"
COQ = f"{V}/coq"
WORK = f"{V}/work"
HARNESS = f"{V}/harness"
# evidence and replay files go under /verif, except in seeded-change trials (tools/seedtest.py),
# whose outcomes must never overwrite the evidence of the unchanged tree
OUTROOT = os.environ.get("VERIF_OUTROOT", V)
ENV = dict(os.environ, GOFLAGS="-mod=mod", GOPROXY="off", GOSUMDB="off", GOTOOLCHAIN="local")
GOBUILD = ["-tags", "verif", "-gcflags=all=-lang=go1.23", "-overlay", f"{V}/shim/overlay.json"]

PROPS = json.load(open(f"{V}/tools/props.json"))


def sh(cmd, timeout, cwd=None, env=None, logf=None):
    """Run cmd (list) under a timeout; return (rc, output). rc=124 on timeout."""
    t0 = time.time()
    try:
        p = subprocess.run(cmd, cwd=cwd, env=env or ENV, stdout=subprocess.PIPE, stderr=subprocess.STDOUT,
                           timeout=timeout)
        rc, out = p.returncode, p.stdout.decode("utf-8", "replace")
    except subprocess.TimeoutExpired as e:
        rc, out = 124, (e.stdout or b"").decode("utf-8", "replace") + f"\n[timeout after {timeout}s]"
    if logf:
        with open(logf, "a") as f:
            f.write(f"$ {' '.join(cmd)}  (rc={rc}, {time.time()-t0:.1f}s)\n{out}\n")
    return rc, out


def ensure_overlay():
    rc, mc = sh(["go", "env", "GOMODCACHE"], 60)
    mc = mc.strip()
    ov = {"Replace": {
        f"{mc}/github.com/grailbio/base@v0.0.9/errors/once.go": f"{V}/shim/once.go",
        f"{mc}/github.com/grailbio/base@v0.0.9/retry/retry.go": f"{V}/shim/retry.go",
        f"{mc}/github.com/grailbio/base@v0.0.9/limitbuf/limitbuf.go": f"{V}/shim/limitbuf.go",
        f"{mc}/github.com/grailbio/bigmachine@v0.5.8/rpc/client.go": f"{V}/shim/rpc_client.go",
        "/repo/exec/config.go": f"{V}/shim/exec_config.go"}}
    txt = json.dumps(ov, indent=1)
    p = f"{V}/shim/overlay.json"
    if not os.path.exists(p) or open(p).read() != txt:
        open(p, "w").write(txt)


def write_if_changed(path, txt):
    if os.path.exists(path) and open(path).read() == txt:
        return False
    os.makedirs(os.path.dirname(path), exist_ok=True)
    open(path, "w").write(txt)
    return True


STMT = re.compile(r"^\s*(?:Local\s+|Global\s+|#\[[^\]]*\]\s*)*(Theorem|Lemma|Corollary|Example|Fact|Proposition|Remark)\s+([A-Za-z0-9_']+)", re.M)
FORBID = re.compile(r"\b(Admitted|admit|Axiom|Axioms|Parameter|Parameters|Conjecture|Unset\s+Guard|bypass_check|Admit\s+Obligations|type-in-type|impredicative-set)\b")


def strip_comments(s):
    """Remove Coq comments; string literals (which may contain "(*", e.g. pinned Go source text) are
    replaced by "" so that neither comment openers nor keywords inside them are seen."""
    out, depth, i = [], 0, 0
    while i < len(s):
        if s[i] == '"':
            j = i + 1
            while j < len(s):
                if s[j] == '"':
                    if j + 1 < len(s) and s[j + 1] == '"':
                        j += 2
                        continue
                    break
                j += 1
            if not depth:
                out.append('""')
            i = j + 1
        elif s.startswith("(*", i):
            depth += 1; i += 2
        elif s.startswith("*)", i) and depth:
            depth -= 1; i += 2
        else:
            if not depth:
                out.append(s[i])
            i += 1
    return "".join(out)


def cone_files(pid):
    """The .v files the property's targets depend on (transitively), from coqdep."""
    targets = PROPS[pid]["coq"]
    rc, out = sh(["coqdep", "-f", "_CoqProject"], 120, cwd=COQ)
    deps = {}
    for line in out.splitlines():
        m = re.match(r"^(\S+)\.vo\b[^:]*:\s*(.*)$", line)
        if m:
            deps[m.group(1) + ".v"] = [d[:-3] + ".v" for d in m.group(2).split() if d.endswith(".vo") and not d.startswith("/")]
    seen, todo = set(), [t[:-3] + ".v" if t.endswith(".vo") else t for t in targets]
    while todo:
        f = todo.pop()
        if f in seen:
            continue
        seen.add(f)
        todo += deps.get(f, [])
    return sorted(seen)


def count_statements(files):
    names = []
    for f in files:
        p = os.path.join(COQ, f)
        if os.path.exists(p):
            names += [f"{f}:{m.group(2)}" for m in STMT.finditer(strip_comments(open(p).read()))]
    return names


def hygiene(files):
    bad = []
    for f in files:
        p = os.path.join(COQ, f)
        if os.path.exists(p):
            for m in FORBID.finditer(strip_comments(open(p).read())):
                bad.append(f"{f}: {m.group(0)}")
    return bad


def parse_list(out, name):
    flat = re.sub(r"\s+", " ", out)
    m = re.search(name + r" = (\[[^\]]*\])", flat)
    if not m:
        return None
    return [int(x) for x in re.findall(r"(\d+)%nat", m.group(1))] if "%nat" in m.group(1) else \
           [int(x) for x in re.findall(r"\d+", m.group(1))]


def parse_ncases(out):
    flat = re.sub(r"\s+", " ", out)
    m = re.search(r"NCASES = (\d+)", flat)
    return int(m.group(1)) if m else None


class Run:
    def __init__(self, pid, tier, seed):
        self.pid, self.tier, self.seed = pid, tier, seed
        self.cfg = PROPS[pid]
        self.wd = f"{WORK}/{pid}"
        os.makedirs(self.wd, exist_ok=True)
        self.log = f"{self.wd}/check.log"
        open(self.log, "w").write(f"check {pid} tier={tier} seed={seed}\n")
        self.notes = []
        self.known_printed = []

    # ---- step 1/2: translator + proofs
    def gen_and_prove(self):
        broken = []
        rc, out = sh([f"{WORK}/bin/goparams", "-repo", "/repo", "-out", f"{COQ}/Gen"], 120, logf=self.log)
        if rc != 0:
            # the translator reports per generated file; only this property's cone matters here
            mine = {os.path.basename(f) for f in cone_files(self.pid) if f.startswith("Gen/")}
            errs = [l for l in out.splitlines() if l.startswith("goparams: ")]
            hit = [l for l in errs if l.split(": ")[1] in mine]
            if hit or not errs:
                broken.append(("translator", "tools/goparams failed on /repo: " + ("; ".join(hit) or out.strip()[-400:])))
        if not os.path.exists(f"{COQ}/Makefile"):
            sh(["coq_makefile", "-f", "_CoqProject", "-o", "Makefile"], 60, cwd=COQ, logf=self.log)
        targets = self.cfg["coq"]
        rc, out = sh(["make", "-j16", "-k"] + targets, self.cfg.get("make_timeout", 1500), cwd=COQ, logf=self.log)
        if rc != 0:
            errs = re.findall(r'File "\./([^"]+)", line (\d+)[^\n]*\n(Error:[^\n]*(?:\n[^\n]+){0,3})', out)
            if errs:
                for f, ln, msg in errs[:3]:
                    broken.append(("proof", f"{f}:{ln}: {self.enclosing(f, int(ln))}: {msg.strip()[:300]}"))
            else:
                broken.append(("proof", "make failed: " + out.strip()[-400:]))
        # Print Assumptions of the property theorems, re-read on every run
        assumptions = []
        pf = f"Properties/{self.pid}.v"
        if os.path.exists(f"{COQ}/{pf}") and rc == 0:
            rc2, out2 = sh(["coqc", "-Q", ".", "BS", pf], 600, cwd=COQ, logf=self.log)
            if rc2 != 0:
                broken.append(("proof", f"{pf} does not check: " + out2.strip()[-300:]))
            closed = len(re.findall(r"Closed under the global context", out2))
            axs = re.findall(r"^([A-Za-z0-9_.']+)\s*:", re.sub(r"Axioms:\n", "", out2), re.M) if "Axioms:" in out2 else []
            assumptions = [f"{closed} property theorems closed under the global context"] + [f"axiom: {a}" for a in sorted(set(axs))]
        self.assumptions = assumptions
        return broken

    def enclosing(self, f, line):
        try:
            lines = open(f"{COQ}/{f}").read().splitlines()[:line]
        except OSError:
            return "?"
        for l in reversed(lines):
            m = STMT.match(l)
            if m:
                return m.group(2)
        return "?"

    # ---- step 3: driver
    def build_driver(self):
        pkg = self.cfg["harness"]
        binp = f"{WORK}/bin/{self.pid.lower()}"
        cmd = ["go", "build"] + GOBUILD + ["-o", binp, pkg]
        if self.cfg.get("race") and self.tier == "thorough":
            # the race runtime turns on checkptr, which the vendored murmur3 (unsafe loads) trips
            cmd = ["go", "build", "-race", "-tags", "verif", "-gcflags=all=-lang=go1.23 -d=checkptr=0",
                   "-overlay", f"{V}/shim/overlay.json", "-o", binp, pkg]
        rc, out = sh(cmd, 900, cwd=HARNESS, logf=self.log)
        return rc == 0, out, binp

    def run_driver(self, binp, tier, seed, scale=1, replay=None, outdir=None):
        outdir = outdir or self.wd
        for f in (f"{outdir}/cases_{self.pid}.v", f"{outdir}/cases_{self.pid}.json"):
            if os.path.exists(f):
                os.remove(f)
        cmd = [binp, "-seed", str(seed), "-tier", tier, "-out", outdir, "-scale", str(scale)]
        if replay:
            cmd += ["-replay", replay]
        to = self.cfg.get("driver_timeout", {}).get(tier, 900 if tier == "quick" else 7200) * max(1, scale if scale < 4 else 4)
        env = dict(ENV)
        if self.cfg.get("race"):
            for f in os.listdir(outdir):
                if f.startswith("race."):
                    os.remove(os.path.join(outdir, f))
            env["GORACE"] = f"log_path={outdir}/race halt_on_error=0 exitcode=0"
        # the implementation under test leaves temporary stores behind: keep them in a
        # private directory that goes away with the run
        tmpd = f"{outdir}/tmp"
        shutil.rmtree(tmpd, ignore_errors=True)
        os.makedirs(tmpd, exist_ok=True)
        env["TMPDIR"] = tmpd
        env["VERIF_DRIVER_DEADLINE"] = str(max(30, to - 30))  # the driver dumps its goroutines before we kill it
        try:
            rc, out = sh(cmd, to, cwd=outdir, env=env, logf=self.log)
        finally:
            shutil.rmtree(tmpd, ignore_errors=True)
        return rc, out

    # ---- step 4: judge inside Coq
    def judge(self, outdir=None):
        outdir = outdir or self.wd
        vfile = f"cases_{self.pid}.v"
        rc, out = sh(["coqc", "-Q", COQ, "BS", vfile], self.cfg.get("judge_timeout", 3600), cwd=outdir, logf=self.log)
        if rc != 0:
            return None, None, None, out
        return parse_ncases(out), parse_list(out, "MISMATCH"), parse_list(out, "VIOL"), out


def load_known():
    p = f"{V}/known_findings.json"
    if not os.path.exists(p):
        return {"findings": [], "fixed": []}
    return json.load(open(p))


def write_evidence(run, rec, stmts, discharged, broken, viol_count, wall, extra):
    cov = {
        "obligations": len(stmts), "discharged": discharged,
        "checker_cmd": f"cd /verif/coq && make -j16 {' '.join(run.cfg['coq'])} && coqc -Q . BS Properties/{run.pid}.v ; "
                       f"coqc -Q /verif/coq BS work/{run.pid}/cases_{run.pid}.v",
        "trusted_base": ["Coq 8.16.1 kernel and its vm_compute VM (no native_compute, no extraction)"] + run.assumptions + [
            "tools/goparams (Go AST -> coq/Gen/*.v translator)",
            f"harness/{run.pid.lower()} Go driver, its generators and canonicalisation",
            "shim/ overlay of base v0.0.9, bigmachine v0.5.8 rpc client and exec/config.go (see DESIGN.md 1.1)",
            "Go 1.23.5 toolchain and runtime"] + run.cfg.get("trusted", []),
        "evaluations": rec.get("evaluations", 0), "distinct_nontrivial": rec.get("distinct_nontrivial", 0),
        "rule": rec.get("rule", ""), "samples": rec.get("samples", [])[:6] or [{"note": "no driver cases on this run"}],
        "distribution": rec.get("distribution", {}),
        "theorems": [s for s in stmts if s.startswith("Properties/")] or stmts[:40],
        "broken_obligations": [b[1] for b in broken],
        "exhaustive": bool(rec.get("extra", {}) and rec["extra"].get("exhaustive")),
    }
    cov.update(extra)
    if rec.get("extra"):
        cov["driver_extra"] = rec["extra"]
    if rec.get("notes"):
        cov["driver_notes"] = rec["notes"]
    ev = {"property_id": run.pid, "tier": run.tier, "seed": run.seed, "level": "proof", "coverage": cov,
          "assumptions": run.cfg.get("assumptions", []) + run.notes, "wall_s": round(wall, 1), "violations": viol_count}
    os.makedirs(f"{OUTROOT}/evidence", exist_ok=True)
    json.dump(ev, open(f"{OUTROOT}/evidence/{run.pid}.json", "w"), indent=1)


def shrink(run, binp, rec, idx):
    """Greedy one-op-removal shrinking of case idx when its desc has an 'ops' list.
    Every candidate is re-run on the implementation and re-judged by Coq."""
    case = rec["cases"][idx]
    desc = case.get("desc")
    key = run.cfg.get("shrink_key", "ops")
    if not isinstance(desc, dict) or not isinstance(desc.get(key), list):
        return case
    sd = f"{run.wd}/shrink"
    os.makedirs(sd, exist_ok=True)
    best, budget = case, run.cfg.get("shrink_budget", 25)
    i = len(desc[key]) - 1
    while i >= 0 and budget > 0:
        cand = dict(best["desc"]); cand[key] = best["desc"][key][:i] + best["desc"][key][i+1:]
        json.dump({"cases": [{"desc": cand}]}, open(f"{sd}/in.json", "w"))
        rc, _ = run.run_driver(binp, run.tier, run.seed, replay=f"{sd}/in.json", outdir=sd)
        budget -= 1
        if rc == 0:
            n, mm, vv, _ = run.judge(sd)
            if vv:
                r2 = json.load(open(f"{sd}/cases_{run.pid}.json"))
                if r2["cases"] and r2["cases"][0].get("sig") == case.get("sig"):
                    best = r2["cases"][0]
        i -= 1
        i = min(i, len(best["desc"][key]) - 1)
    return best


def main():
    ap = argparse.ArgumentParser()
    ap.add_argument("pid")
    ap.add_argument("--tier", default=os.environ.get("VERIF_TIER", "quick"))
    ap.add_argument("--seed", type=int, default=int(os.environ.get("VERIF_SEED", "1") or 1))
    ap.add_argument("--replay")
    a = ap.parse_args()
    pid = a.pid
    if pid not in PROPS:
        print(f"unknown property {pid}"); sys.exit(2)
    if a.tier not in ("quick", "thorough"):
        a.tier = "quick"
    t0 = time.time()
    os.makedirs(WORK, exist_ok=True)
    lock = open(f"{WORK}/.lock", "w")
    fcntl.flock(lock, fcntl.LOCK_EX)
    ensure_overlay()
    run = Run(pid, a.tier, a.seed)
    known = load_known()
    kf = [k for k in known.get("findings", []) if k["property"] == pid]

    if not os.path.exists(f"{WORK}/bin/goparams"):
        sh(["go", "build", "-o", f"{WORK}/bin/goparams", "./goparams"], 600, cwd=f"{V}/tools", logf=run.log)

    broken = run.gen_and_prove()
    files = cone_files(pid)
    stmts = count_statements(files)
    hyg = hygiene(files)
    if hyg:
        broken.append(("hygiene", "forbidden vernacular in the development: " + "; ".join(hyg[:5])))
    broken_files = {b[1].split(":")[0] for b in broken if b[0] == "proof"}
    discharged = len([s for s in stmts if s.split(":")[0] not in broken_files]) if broken else len(stmts)
    if any(b[0] in ("hygiene", "translator") for b in broken):
        discharged = min(discharged, len(stmts) - 1)

    ok, bout, binp = run.build_driver()
    rec, n, mm, vv, jout = {}, None, None, None, ""
    tie_broken = []
    if not ok:
        tie_broken.append("driver build failed against /repo's working tree: " + bout.strip()[-500:])
    else:
        rc, dout = run.run_driver(binp, a.tier, a.seed, replay=a.replay)
        if rc != 0 or not os.path.exists(f"{run.wd}/cases_{pid}.json"):
            tie_broken.append(f"driver exited rc={rc}: " + dout.strip()[-800:])
        else:
            rec = json.load(open(f"{run.wd}/cases_{pid}.json"))
            n, mm, vv, jout = run.judge()
            if mm is None or vv is None:
                tie_broken.append("case file rejected by coqc: " + jout.strip()[-500:])
                mm, vv = [], []

    mm, vv = mm or [], vv or []
    # ---- search: obligation or correspondence broken but no violating case yet
    searched = False
    if (broken or mm or tie_broken) and not vv and ok and not a.replay and not (tie_broken and not rec):
        searched = True
        # one more pass over fresh seeds at a larger volume (thorough tier: a second, thorough-volume pass)
        passes = [(a.tier, a.seed + 1000)] + ([("thorough", a.seed + 2000)] if a.tier == "thorough" else [])
        t_search = time.time()
        for stier, sseed in passes:
            if time.time() - t_search > run.cfg.get("search_budget_s", 600):
                break
            rc, dout = run.run_driver(binp, stier, sseed, scale=run.cfg.get("search_scale", 4))
            if rc != 0:
                continue
            n2, mm2, vv2, _ = run.judge()
            if vv2:
                rec = json.load(open(f"{run.wd}/cases_{pid}.json"))
                vv, mm2 = vv2, mm2 or []
                run.notes.append(f"failing input found by search (seed {sseed})")
                break

    # ---- classify violating cases against the committed known findings
    os.makedirs(f"{OUTROOT}/replays", exist_ok=True)
    new_viol, known_hits = [], {}
    for i in vv:
        c = rec["cases"][i] if i < len(rec.get("cases", [])) else {"sig": "?", "desc": None}
        hit = next((k for k in kf if k["sig"] == c.get("sig")), None)
        if hit:
            known_hits.setdefault(hit["sig"], []).append(i)
        else:
            new_viol.append(i)
    # a mismatch on a case that is a listed finding is explained by that finding
    known_idx = {i for v in known_hits.values() for i in v}
    mm = [i for i in mm if i not in known_idx]
    for k in kf:
        state = f"reproduced on {len(known_hits[k['sig']])} case(s) this run" if k["sig"] in known_hits else "listed"
        print(f"KNOWN-FINDING: property={pid} {k['what']} [{k['sig']}; {state}]")

    rc_exit, viol_lines = 0, []
    if new_viol:
        i = new_viol[0]
        best = shrink(run, binp, rec, i) if not a.replay else rec["cases"][i]
        rp = f"{OUTROOT}/replays/{pid}-{a.tier}-{a.seed}.json"
        json.dump({"property": pid, "seed": a.seed, "tier": a.tier, "violating_case_indices": new_viol,
                   "cases": [best], "how": f"python3 tools/check.py {pid} --replay {rp}",
                   "broken": [b[1] for b in broken] + tie_broken}, open(rp, "w"), indent=1)
        shutil.copy(f"{run.wd}/cases_{pid}.v", f"{OUTROOT}/replays/{pid}-{a.tier}-{a.seed}.v")
        viol_lines.append(f"VIOLATION property={pid} replay={rp}")
        rc_exit = 1
    elif broken or tie_broken or mm:
        # nothing concrete found: the property is no longer shown to hold
        what = [b[1] for b in broken] + tie_broken
        if mm:
            what.append(f"correspondence corr:{pid} (model vs implementation) differs on case indices {mm[:10]}")
        rp = f"{OUTROOT}/replays/{pid}-{a.tier}-{a.seed}-unproved.json"
        first = rec["cases"][mm[0]] if mm and mm[0] < len(rec.get("cases", [])) else None
        json.dump({"property": pid, "seed": a.seed, "tier": a.tier, "no_longer_checks": what,
                   "first_mismatching_case": first, "searched": searched,
                   "how": f"python3 tools/check.py {pid} --tier {a.tier} --seed {a.seed}"}, open(rp, "w"), indent=1)
        viol_lines.append(f"VIOLATION property={pid} replay={rp} no-failing-input-found")
        rc_exit = 1

    wall = time.time() - t0
    write_evidence(run, rec, stmts, discharged, broken, len(new_viol), wall,
                   {"mismatch_indices": mm[:50], "known_finding_hits": {k: len(v) for k, v in known_hits.items()},
                    "tie_broken": tie_broken, "judged_cases": n or 0, "searched": searched})
    print(f"[{pid}] tier={a.tier} seed={a.seed} obligations={len(stmts)} discharged={discharged} "
          f"cases={n} mismatches={len(mm)} violations={len(new_viol)} known={sum(len(v) for v in known_hits.values())} wall={wall:.0f}s")
    for b in broken:
        print(f"[{pid}] BROKEN {b[0]}: {b[1]}")
    for t in tie_broken:
        print(f"[{pid}] TIE-BROKEN: {t[:600]}")
    for l in viol_lines:
        print(l)
    sys.exit(rc_exit)


if __name__ == "__main__":
    main()

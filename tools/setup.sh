#!/bin/bash
# MANIFEST.setup_cmd: build everything from files on disk, offline.
set -e
cd /verif
. tools/env.sh
mkdir -p work/bin evidence replays
python3 - <<'PY'
import sys; sys.path.insert(0, "/verif/tools")
import check; check.ensure_overlay()
PY
(cd tools && go build -o /verif/work/bin/goparams ./goparams)
/verif/work/bin/goparams -repo /repo -out /verif/coq/Gen || echo "goparams reported a broken tie (checks will report it)"
(cd coq && coq_makefile -f _CoqProject -o Makefile >/dev/null && timeout 3000 make -j16 2>&1 | grep -v '^COQ\|^Closed under' || true)
# warm the Go build cache for every driver
for d in $(python3 -c "import json;print(' '.join(sorted(set(v['harness'] for v in json.load(open('/verif/tools/props.json')).values()))))"); do
  n=$(basename $d)
  (cd harness && go build -tags verif -gcflags=all=-lang=go1.23 -overlay /verif/shim/overlay.json -o /verif/work/bin/$n $d) || echo "driver $d failed to build"
done
echo setup done

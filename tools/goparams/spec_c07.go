package main

import (
	"bytes"
	"fmt"
	"go/ast"
	"go/printer"
	"go/token"
	"strconv"
	"strings"
)

// C07: facts of sliceio/codec.go that the Coq model of the row-stream codec
// relies on and that an edit could change without breaking the build:
// which CRC-32 table both ends use, on which events the running checksum is
// reset and sampled, that decode zeroes the destination first, and where the
// two io.EOF conversions sit.

// c07SelCallsOn lists, in source order, the method names m of calls `<recv>.<field>.m(...)`
// (or `<field>.m(...)` when recv == "") found in the body of fn.
func c07SelCallsOn(fd *ast.FuncDecl, recv, field string) []string {
	var out []string
	ast.Inspect(fd.Body, func(n ast.Node) bool {
		call, ok := n.(*ast.CallExpr)
		if !ok {
			return true
		}
		sel, ok := call.Fun.(*ast.SelectorExpr)
		if !ok {
			return true
		}
		switch x := sel.X.(type) {
		case *ast.SelectorExpr:
			if id, ok := x.X.(*ast.Ident); ok && id.Name == recv && x.Sel.Name == field {
				out = append(out, sel.Sel.Name)
			}
		case *ast.Ident:
			if recv == "" && x.Name == field {
				out = append(out, sel.Sel.Name)
			}
		}
		return true
	})
	return out
}

// c07PkgCalls lists, in source order, the functions f of calls `pkg.f(...)` in fn.
func c07PkgCalls(fd *ast.FuncDecl, pkg string) []string {
	var out []string
	ast.Inspect(fd.Body, func(n ast.Node) bool {
		if call, ok := n.(*ast.CallExpr); ok {
			if sel, ok := call.Fun.(*ast.SelectorExpr); ok {
				if id, ok := sel.X.(*ast.Ident); ok && id.Name == pkg {
					out = append(out, pkg+"."+sel.Sel.Name)
				}
			}
		}
		return true
	})
	return out
}

// c07EofCompares counts the comparisons `<x> == io.EOF` in fn.
func c07EofCompares(fd *ast.FuncDecl) int {
	n := 0
	ast.Inspect(fd.Body, func(nd ast.Node) bool {
		if be, ok := nd.(*ast.BinaryExpr); ok && be.Op == token.EQL {
			if sel, ok := be.Y.(*ast.SelectorExpr); ok {
				if id, ok := sel.X.(*ast.Ident); ok && id.Name == "io" && sel.Sel.Name == "EOF" {
					n++
				}
			}
		}
		return true
	})
	return n
}

// c07FirstStmt renders the first statement of fn when it is a plain call `a.b()`.
func c07FirstStmt(fd *ast.FuncDecl) string {
	if len(fd.Body.List) == 0 {
		return ""
	}
	es, ok := fd.Body.List[0].(*ast.ExprStmt)
	if !ok {
		return "<not a call>"
	}
	call, ok := es.X.(*ast.CallExpr)
	if !ok {
		return "<not a call>"
	}
	if sel, ok := call.Fun.(*ast.SelectorExpr); ok {
		if id, ok := sel.X.(*ast.Ident); ok {
			return fmt.Sprintf("%s.%s()", id.Name, sel.Sel.Name)
		}
	}
	return "<not a call>"
}

// c07IfConds renders, in source order, the condition of every if statement of fn.
func c07IfConds(fset *token.FileSet, fd *ast.FuncDecl) []string {
	var out []string
	ast.Inspect(fd.Body, func(n ast.Node) bool {
		if is, ok := n.(*ast.IfStmt); ok {
			var b bytes.Buffer
			if is.Init != nil {
				printer.Fprint(&b, fset, is.Init)
				b.WriteString("; ")
			}
			printer.Fprint(&b, fset, is.Cond)
			out = append(out, strings.Join(strings.Fields(b.String()), " "))
		}
		return true
	})
	return out
}

// c07Uses counts the uses of the bare identifier name (pkg == "") or of pkg.name in fn.
func c07Uses(fd *ast.FuncDecl, pkg, name string) int {
	n := 0
	ast.Inspect(fd.Body, func(nd ast.Node) bool {
		switch x := nd.(type) {
		case *ast.SelectorExpr:
			if id, ok := x.X.(*ast.Ident); ok {
				if pkg != "" && id.Name == pkg && x.Sel.Name == name {
					n++
				}
				return false // do not count the Sel of a selector as a bare identifier
			}
		case *ast.Ident:
			if pkg == "" && x.Name == name {
				n++
			}
		}
		return true
	})
	return n
}

// c07StringLits lists the string literals of fn in source order.
func c07StringLits(fd *ast.FuncDecl) []string {
	var out []string
	ast.Inspect(fd.Body, func(n ast.Node) bool {
		if bl, ok := n.(*ast.BasicLit); ok && bl.Kind == token.STRING {
			if v, err := strconv.Unquote(bl.Value); err == nil {
				out = append(out, v)
			}
		}
		return true
	})
	return out
}

func c07CoqStrings(xs []string) string {
	q := make([]string, len(xs))
	for i, x := range xs {
		q[i] = fmt.Sprintf("%q%%string", x)
	}
	return "[" + strings.Join(q, "; ") + "]"
}

func init() {
	specs = append(specs, spec{"C07_params.v", func(repo string, e *emitter) {
		p, err := loadPkg(repo, "sliceio")
		if err != nil {
			e.fail("%v", err)
			return
		}
		get := func(name string) *ast.FuncDecl {
			fd := p.findFunc(name)
			if fd == nil || fd.Body == nil {
				e.fail("function sliceio.%s not found", name)
				return nil
			}
			return fd
		}
		newEnc, newDec := get("NewEncodingWriter"), get("NewDecodingReader")
		write, read, decode := get("Encoder.Write"), get("decodingReader.Read"), get("decodingReader.decode")
		if newEnc == nil || newDec == nil || write == nil || read == nil || decode == nil {
			return
		}
		// the checksum constructors: crc32.NewIEEE = IEEE table, polynomial 0xedb88320 reflected
		fmt.Fprintf(&e.b, "Definition codec_enc_crc_ctor : list string := %s.\n", c07CoqStrings(c07PkgCalls(newEnc, "crc32")))
		fmt.Fprintf(&e.b, "Definition codec_dec_crc_ctor : list string := %s.\n", c07CoqStrings(c07PkgCalls(newDec, "crc32")))
		// when the running checksum is reset and sampled
		fmt.Fprintf(&e.b, "Definition codec_write_crc_calls : list string := %s.\n", c07CoqStrings(c07SelCallsOn(write, "e", "crc")))
		fmt.Fprintf(&e.b, "Definition codec_read_crc_calls : list string := %s.\n", c07CoqStrings(c07SelCallsOn(read, "d", "crc")))
		fmt.Fprintf(&e.b, "Definition codec_decode_crc_calls : list string := %s.\n", c07CoqStrings(c07SelCallsOn(decode, "d", "crc")))
		// decode zeroes the destination before gob touches it
		fmt.Fprintf(&e.b, "Definition codec_decode_first_stmt : string := %q%%string.\n", c07FirstStmt(decode))
		// the io.EOF -> EOF conversions: one in Read (length token), one in decode (gob column)
		fmt.Fprintf(&e.b, "Definition codec_eof_compares : list Z := [%d; %d].\n", c07EofCompares(read), c07EofCompares(decode))
		// sliceio.EOF (clean end of stream) is produced once, in Read; io.ErrUnexpectedEOF once in each
		fmt.Fprintf(&e.b, "Definition codec_clean_eof_uses : list Z := [%d; %d].\n", c07Uses(read, "", "EOF"), c07Uses(decode, "", "EOF"))
		fmt.Fprintf(&e.b, "Definition codec_unexpected_eof_uses : list Z := [%d; %d].\n", c07Uses(read, "io", "ErrUnexpectedEOF"), c07Uses(decode, "io", "ErrUnexpectedEOF"))
		// every branch condition of Read and decode, in source order
		fmt.Fprintf(&e.b, "Definition codec_read_if_conds : list string := %s.\n", c07CoqStrings(c07IfConds(p.fset, read)))
		fmt.Fprintf(&e.b, "Definition codec_decode_if_conds : list string := %s.\n", c07CoqStrings(c07IfConds(p.fset, decode)))
		// the error texts (the driver recognises "invalid batch length")
		fmt.Fprintf(&e.b, "Definition codec_read_strings : list string := %s.\n", c07CoqStrings(c07StringLits(read)))
		fmt.Fprintf(&e.b, "Definition codec_decode_strings : list string := %s.\n", c07CoqStrings(c07StringLits(decode)))
		// gob calls made by the encoder per batch, in source order
		fmt.Fprintf(&e.b, "Definition codec_write_enc_calls : list string := %s.\n", c07CoqStrings(c07SelCallsOn(write, "e", "enc")))
		fmt.Fprintf(&e.b, "Definition codec_decode_dec_calls : list string := %s.\n", c07CoqStrings(c07SelCallsOn(decode, "d", "dec")))
	}})
}

package main

// C16 (FuncLocationsDiff, invocation transport): the facts of the Go text that
// the models of coq/C16 restate by hand, pinned by the C16_gen_* lemmas of
// coq/Properties/C16.v:
//   - the local edit constants of FuncLocationsDiff (editNone must be the zero
//     value of cell.edit), its "+ " / "- " prefixes, and the comparison that
//     breaks ties between deletion and addition;
//   - the kinds isNilAssignable accepts;
//   - the decode-target table of execInvocation.GobDecode (condition -> type
//     passed to reflect.New), the condition under which GobEncode passes &arg,
//     and the fields encoded directly.

import (
	"fmt"
	"go/ast"
	"go/constant"
	"go/token"
	"go/types"
	"strings"
)

func c16Str(s string) string {
	return "\"" + strings.ReplaceAll(s, "\"", "\"\"") + "\"%string"
}

func c16StrList(xs []string) string {
	ss := make([]string, len(xs))
	for i, x := range xs {
		ss[i] = c16Str(x)
	}
	return "[" + strings.Join(ss, "; ") + "]"
}

func init() {
	specs = append(specs, spec{"C16_params.v", func(repo string, e *emitter) {
		root, err := loadPkg(repo, ".")
		if err != nil {
			e.fail("%v", err)
			return
		}
		// ---- FuncLocationsDiff
		fd := root.findFunc("FuncLocationsDiff")
		if fd == nil || fd.Body == nil {
			e.fail("function FuncLocationsDiff not found")
		} else {
			// local const block with iota
			var consts []string
			var lits []string
			var ties []string
			ast.Inspect(fd.Body, func(n ast.Node) bool {
				switch n := n.(type) {
				case *ast.GenDecl:
					if n.Tok != token.CONST {
						return true
					}
					var last []ast.Expr
					for iota, s := range n.Specs {
						vs := s.(*ast.ValueSpec)
						exprs := vs.Values
						if len(exprs) == 0 {
							exprs = last
						} else {
							last = exprs
						}
						for i, name := range vs.Names {
							if i >= len(exprs) {
								continue
							}
							if v, ok := root.eval(exprs[i], int64(iota), nil); ok && v.Kind() == constant.Int {
								consts = append(consts, fmt.Sprintf("(%s, %s)", c16Str(name.Name), zlit(v)))
							} else {
								e.fail("FuncLocationsDiff: constant %s is not a foldable integer", name.Name)
							}
						}
					}
				case *ast.BasicLit:
					if n.Kind == token.STRING {
						v := constant.MakeFromLiteral(n.Value, n.Kind, 0)
						lits = append(lits, constant.StringVal(v))
					}
				case *ast.CaseClause:
					// the tagless switch of the fill loop: a case comparing two .cost selectors
					for _, x := range n.List {
						if be, ok := x.(*ast.BinaryExpr); ok {
							l, r := types.ExprString(be.X), types.ExprString(be.Y)
							if strings.HasSuffix(l, ".cost") && strings.HasSuffix(r, ".cost") {
								ties = append(ties, l, be.Op.String(), r)
							}
						}
					}
				}
				return true
			})
			fmt.Fprintf(&e.b, "Definition diff_edit_consts : list (string * Z) := [%s].\n", strings.Join(consts, "; "))
			fmt.Fprintf(&e.b, "Definition diff_string_literals : list string := %s.\n", c16StrList(lits))
			fmt.Fprintf(&e.b, "Definition diff_tiebreak : list string := %s.\n", c16StrList(ties))
		}
		// ---- where locations are captured: bigslice.Func records runtime.Caller(1),
		// the place Func was called from (skip 0 would be func.go itself)
		if fd := root.findFunc("Func"); fd == nil || fd.Body == nil {
			e.fail("function Func not found")
		} else {
			var skips []string
			ast.Inspect(fd.Body, func(n ast.Node) bool {
				if call, ok := n.(*ast.CallExpr); ok && types.ExprString(call.Fun) == "runtime.Caller" && len(call.Args) == 1 {
					skips = append(skips, types.ExprString(call.Args[0]))
				}
				return true
			})
			fmt.Fprintf(&e.b, "Definition func_caller_skips : list string := %s.\n", c16StrList(skips))
		}
		// ---- isNilAssignable: the kinds listed before `default`
		if fd := root.findFunc("isNilAssignable"); fd == nil || fd.Body == nil {
			e.fail("function isNilAssignable not found")
		} else {
			var kinds []string
			ast.Inspect(fd.Body, func(n ast.Node) bool {
				if cc, ok := n.(*ast.CaseClause); ok {
					for _, x := range cc.List {
						kinds = append(kinds, strings.TrimPrefix(types.ExprString(x), "reflect."))
					}
				}
				return true
			})
			fmt.Fprintf(&e.b, "Definition nil_assignable_kinds : list string := %s.\n", c16StrList(kinds))
		}
		// ---- execInvocation.GobDecode / GobEncode / directEncodedFields
		ex, err := loadPkg(repo, "exec")
		if err != nil {
			e.fail("%v", err)
			return
		}
		if fd := ex.findFunc("execInvocation.GobDecode"); fd == nil || fd.Body == nil {
			e.fail("method execInvocation.GobDecode not found")
		} else {
			var table []string
			ast.Inspect(fd.Body, func(n ast.Node) bool {
				cc, ok := n.(*ast.CaseClause)
				if !ok {
					return true
				}
				cond := "default"
				if len(cc.List) > 0 {
					cond = types.ExprString(cc.List[0])
				}
				target := "?"
				for _, st := range cc.Body {
					ast.Inspect(st, func(m ast.Node) bool {
						if call, ok := m.(*ast.CallExpr); ok && types.ExprString(call.Fun) == "reflect.New" && len(call.Args) == 1 {
							target = types.ExprString(call.Args[0])
						}
						return true
					})
				}
				table = append(table, fmt.Sprintf("(%s, %s)", c16Str(cond), c16Str(target)))
				return true
			})
			fmt.Fprintf(&e.b, "Definition inv_decode_targets : list (string * string) := [%s].\n", strings.Join(table, "; "))
		}
		if fd := ex.findFunc("execInvocation.GobEncode"); fd == nil || fd.Body == nil {
			e.fail("method execInvocation.GobEncode not found")
		} else {
			// the `if` whose body encodes &arg
			var conds []string
			ast.Inspect(fd.Body, func(n ast.Node) bool {
				is, ok := n.(*ast.IfStmt)
				if !ok {
					return true
				}
				addr := false
				ast.Inspect(is.Body, func(m ast.Node) bool {
					if u, ok := m.(*ast.UnaryExpr); ok && u.Op == token.AND && types.ExprString(u.X) == "arg" {
						addr = true
					}
					return true
				})
				if addr && is.Init == nil {
					conds = append(conds, types.ExprString(is.Cond))
				}
				return true
			})
			fmt.Fprintf(&e.b, "Definition inv_encode_addr_conds : list string := %s.\n", c16StrList(conds))
			// switch: GobEncode returns an error for a nil pointer argument before it
			// hands the argument to gob (`if v := reflect.ValueOf(arg); v.Kind() ==
			// reflect.Ptr && v.IsNil() { return nil, ... }` ahead of enc.Encode(arg))
			var encPos, testPos token.Pos
			ast.Inspect(fd.Body, func(n ast.Node) bool {
				switch n := n.(type) {
				case *ast.CallExpr:
					if types.ExprString(n.Fun) == "enc.Encode" && len(n.Args) == 1 && types.ExprString(n.Args[0]) == "arg" && encPos == token.NoPos {
						encPos = n.Pos()
					}
				case *ast.IfStmt:
					as, ok := n.Init.(*ast.AssignStmt)
					if !ok || len(as.Lhs) != 1 || len(as.Rhs) != 1 || types.ExprString(as.Rhs[0]) != "reflect.ValueOf(arg)" {
						return true
					}
					v := types.ExprString(as.Lhs[0])
					if types.ExprString(n.Cond) != v+".Kind() == reflect.Ptr && "+v+".IsNil()" {
						return true
					}
					for _, st := range n.Body.List {
						if rs, ok := st.(*ast.ReturnStmt); ok && len(rs.Results) == 2 && types.ExprString(rs.Results[0]) == "nil" && types.ExprString(rs.Results[1]) != "nil" && testPos == token.NoPos {
							testPos = n.Pos()
						}
					}
				}
				return true
			})
			if encPos == token.NoPos {
				e.fail("GobEncode: call enc.Encode(arg) not found")
			}
			fmt.Fprintf(&e.b, "Definition encode_rejects_nil_pointer : bool := %s.\n", c15Bool(testPos != token.NoPos && testPos < encPos))
		}
		// switch: Session.run returns an error for a nil *Result argument before the
		// invocation is made (`if result, ok := arg.(*Result); ok && result == nil
		// { return nil, ... }` in a loop over args ahead of makeExecInvocation)
		if fd := ex.findFunc("Session.run"); fd == nil || fd.Body == nil {
			e.fail("method Session.run not found")
		} else {
			var mkPos, testPos token.Pos
			ast.Inspect(fd.Body, func(n ast.Node) bool {
				switch n := n.(type) {
				case *ast.CallExpr:
					if types.ExprString(n.Fun) == "makeExecInvocation" && mkPos == token.NoPos {
						mkPos = n.Pos()
					}
				case *ast.RangeStmt:
					if types.ExprString(n.X) != "args" || n.Value == nil {
						return true
					}
					arg := types.ExprString(n.Value)
					for _, st := range n.Body.List {
						is, ok := st.(*ast.IfStmt)
						if !ok {
							continue
						}
						as, ok := is.Init.(*ast.AssignStmt)
						if !ok || len(as.Lhs) != 2 || len(as.Rhs) != 1 || types.ExprString(as.Rhs[0]) != arg+".(*Result)" {
							continue
						}
						r, okv := types.ExprString(as.Lhs[0]), types.ExprString(as.Lhs[1])
						if types.ExprString(is.Cond) != okv+" && "+r+" == nil" {
							continue
						}
						for _, st2 := range is.Body.List {
							if rs, ok := st2.(*ast.ReturnStmt); ok && len(rs.Results) == 2 && types.ExprString(rs.Results[0]) == "nil" && types.ExprString(rs.Results[1]) != "nil" && testPos == token.NoPos {
								testPos = n.Pos()
							}
						}
					}
				}
				return true
			})
			if mkPos == token.NoPos {
				e.fail("Session.run: call makeExecInvocation not found")
			}
			// the invocation's location: runtime.Caller(calldepth + 1) in run, which
			// Run and Must call with calldepth 1
			var skips []string
			ast.Inspect(fd.Body, func(n ast.Node) bool {
				if call, ok := n.(*ast.CallExpr); ok && types.ExprString(call.Fun) == "runtime.Caller" && len(call.Args) == 1 {
					skips = append(skips, types.ExprString(call.Args[0]))
				}
				return true
			})
			for _, name := range []string{"Session.Run", "Session.Must"} {
				if fd2 := ex.findFunc(name); fd2 != nil && fd2.Body != nil {
					ast.Inspect(fd2.Body, func(n ast.Node) bool {
						if call, ok := n.(*ast.CallExpr); ok && types.ExprString(call.Fun) == "s.run" && len(call.Args) >= 2 {
							skips = append(skips, name+": "+types.ExprString(call.Args[1]))
						}
						return true
					})
				} else {
					e.fail("method %s not found", name)
				}
			}
			fmt.Fprintf(&e.b, "Definition run_location_skips : list string := %s.\n", c16StrList(skips))
			fmt.Fprintf(&e.b, "Definition run_rejects_nil_result : bool := %s.\n", c15Bool(testPos != token.NoPos && testPos < mkPos))
		}
		if fd := ex.findFunc("execInvocation.directEncodedFields"); fd == nil || fd.Body == nil {
			e.fail("method execInvocation.directEncodedFields not found")
		} else {
			var names []string
			ast.Inspect(fd.Body, func(n ast.Node) bool {
				if cl, ok := n.(*ast.CompositeLit); ok && cl.Type == nil && len(cl.Elts) == 2 {
					if bl, ok := cl.Elts[0].(*ast.BasicLit); ok && bl.Kind == token.STRING {
						names = append(names, constant.StringVal(constant.MakeFromLiteral(bl.Value, bl.Kind, 0)))
					}
				}
				return true
			})
			fmt.Fprintf(&e.b, "Definition inv_direct_fields : list string := %s.\n", c16StrList(names))
		}
	}})
}

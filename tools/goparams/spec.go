package main

import (
	"fmt"
	"go/ast"
	"go/constant"
	"go/token"
	"strings"
)

type spec struct {
	file string
	gen  func(repo string, e *emitter)
}

// constZ emits `Definition <coq> : Z := <value of Go constant name in dir>`.
func constZ(repo string, e *emitter, dir, name, coq string) {
	p, err := loadPkg(repo, dir)
	if err != nil {
		e.fail("%v", err)
		return
	}
	v, ok := p.consts[name]
	if !ok || v.Kind() != constant.Int {
		e.fail("integer constant %s.%s not found", dir, name)
		return
	}
	fmt.Fprintf(&e.b, "Definition %s : Z := %s.\n", coq, zlit(v))
}

// enumZ emits one Definition per enumerator plus the list in declaration order.
func enumZ(repo string, e *emitter, dir string, names []string, prefix string) {
	p, err := loadPkg(repo, dir)
	if err != nil {
		e.fail("%v", err)
		return
	}
	var items []string
	for _, n := range names {
		v, ok := p.consts[n]
		if !ok || v.Kind() != constant.Int {
			e.fail("enumerator %s.%s not found", dir, n)
			continue
		}
		fmt.Fprintf(&e.b, "Definition %s%s : Z := %s.\n", prefix, n, zlit(v))
		items = append(items, prefix+n)
	}
	fmt.Fprintf(&e.b, "Definition %sall : list Z := [%s].\n", prefix, strings.Join(items, "; "))
}

// intLitsInFunc collects, in source order, the integer literals appearing in
// the body of a function: a cheap but exact way to pin thresholds that are
// written inline (e.g. 1024 and 4 in (Frame).grow).
func intLitsInFunc(repo string, e *emitter, dir, fn, coq string) {
	p, err := loadPkg(repo, dir)
	if err != nil {
		e.fail("%v", err)
		return
	}
	fd := p.findFunc(fn)
	if fd == nil || fd.Body == nil {
		e.fail("function %s.%s not found", dir, fn)
		return
	}
	var lits []string
	ast.Inspect(fd.Body, func(n ast.Node) bool {
		if bl, ok := n.(*ast.BasicLit); ok && bl.Kind == token.INT {
			lits = append(lits, zlit(constant.MakeFromLiteral(bl.Value, bl.Kind, 0)))
		}
		return true
	})
	fmt.Fprintf(&e.b, "Definition %s : list Z := [%s].\n", coq, strings.Join(lits, "; "))
}

var specs = []spec{
	{"C11_params.v", func(repo string, e *emitter) {
		// the inline thresholds of (Frame).grow: `i0 < 1024`, `m += m / 4`, `m == 0`
		intLitsInFunc(repo, e, "frame", "Frame.grow", "grow_literals")
	}},
}

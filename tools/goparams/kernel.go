package main

// Translation of a tiny integer-only subset of Go into Gallina over Z, used for
// "integer kernels" (constShard, ...).  Supported: parameters and named or
// unnamed results of integer type; `var x = e` / `var (...)` / `x := e` /
// `x = e` / `x op= e` / `x++` / `x--`; `if c { } else { }` (else-if chains);
// a final `return` (naked or with expressions); expressions built from
// identifiers, integer literals, + - * / % (Go's truncated division: Z.quot,
// Z.rem), comparisons, && || !, parentheses, unary minus and integer
// conversions. Anything else makes the translator fail loudly.

import (
	"fmt"
	"go/ast"
	"go/token"
	"sort"
	"strings"
)

type ktrans struct {
	errs []string
}

func (k *ktrans) fail(format string, args ...interface{}) string {
	k.errs = append(k.errs, fmt.Sprintf(format, args...))
	return "0"
}

func (k *ktrans) expr(e ast.Expr) string {
	switch e := e.(type) {
	case *ast.Ident:
		if e.Name == "true" || e.Name == "false" {
			return e.Name
		}
		return "v_" + e.Name
	case *ast.BasicLit:
		if e.Kind != token.INT {
			return k.fail("non-integer literal %s", e.Value)
		}
		return e.Value
	case *ast.ParenExpr:
		return "(" + k.expr(e.X) + ")"
	case *ast.UnaryExpr:
		switch e.Op {
		case token.SUB:
			return "(- " + k.expr(e.X) + ")"
		case token.NOT:
			return "(negb " + k.expr(e.X) + ")"
		}
		return k.fail("unary operator %s", e.Op)
	case *ast.BinaryExpr:
		x, y := k.expr(e.X), k.expr(e.Y)
		switch e.Op {
		case token.ADD:
			return "(" + x + " + " + y + ")"
		case token.SUB:
			return "(" + x + " - " + y + ")"
		case token.MUL:
			return "(" + x + " * " + y + ")"
		case token.QUO:
			return "(Z.quot " + x + " " + y + ")"
		case token.REM:
			return "(Z.rem " + x + " " + y + ")"
		case token.LSS:
			return "(" + x + " <? " + y + ")"
		case token.LEQ:
			return "(" + x + " <=? " + y + ")"
		case token.GTR:
			return "(" + y + " <? " + x + ")"
		case token.GEQ:
			return "(" + y + " <=? " + x + ")"
		case token.EQL:
			return "(" + x + " =? " + y + ")"
		case token.NEQ:
			return "(negb (" + x + " =? " + y + "))"
		case token.LAND:
			return "(andb " + x + " " + y + ")"
		case token.LOR:
			return "(orb " + x + " " + y + ")"
		}
		return k.fail("binary operator %s", e.Op)
	case *ast.CallExpr:
		if id, ok := e.Fun.(*ast.Ident); ok && len(e.Args) == 1 {
			switch id.Name {
			case "int", "int64", "int32", "uint", "uint64", "uint32":
				return k.expr(e.Args[0])
			}
		}
		return k.fail("call expression")
	}
	return k.fail("expression %T", e)
}

// assigned collects the variables assigned in a statement list.
func assigned(stmts []ast.Stmt, out map[string]bool) {
	for _, s := range stmts {
		switch s := s.(type) {
		case *ast.AssignStmt:
			for _, l := range s.Lhs {
				if id, ok := l.(*ast.Ident); ok {
					out[id.Name] = true
				}
			}
		case *ast.IncDecStmt:
			if id, ok := s.X.(*ast.Ident); ok {
				out[id.Name] = true
			}
		case *ast.DeclStmt:
			if gd, ok := s.Decl.(*ast.GenDecl); ok {
				for _, sp := range gd.Specs {
					for _, n := range sp.(*ast.ValueSpec).Names {
						out[n.Name] = true
					}
				}
			}
		case *ast.IfStmt:
			assigned(s.Body.List, out)
			if s.Else != nil {
				switch e := s.Else.(type) {
				case *ast.BlockStmt:
					assigned(e.List, out)
				case *ast.IfStmt:
					assigned([]ast.Stmt{e}, out)
				}
			}
		}
	}
}

func tuple(names []string) string {
	if len(names) == 1 {
		return "v_" + names[0]
	}
	vs := make([]string, len(names))
	for i, n := range names {
		vs[i] = "v_" + n
	}
	return "(" + strings.Join(vs, ", ") + ")"
}

func pattern(names []string) string {
	if len(names) == 1 {
		return "v_" + names[0]
	}
	return "'" + tuple(names)
}

// block translates statements followed by the continuation `tail`.
func (k *ktrans) block(stmts []ast.Stmt, declared map[string]bool, tail string, results []string, ind string) string {
	if len(stmts) == 0 {
		return ind + tail
	}
	s, rest := stmts[0], stmts[1:]
	bind := func(name, val string) string {
		declared[name] = true
		return ind + "let v_" + name + " := " + val + " in\n" + k.block(rest, declared, tail, results, ind)
	}
	switch s := s.(type) {
	case *ast.DeclStmt:
		gd, ok := s.Decl.(*ast.GenDecl)
		if !ok || gd.Tok != token.VAR {
			return ind + k.fail("declaration")
		}
		var b strings.Builder
		for _, sp := range gd.Specs {
			vs := sp.(*ast.ValueSpec)
			for i, n := range vs.Names {
				val := "0"
				if i < len(vs.Values) {
					val = k.expr(vs.Values[i])
				}
				declared[n.Name] = true
				b.WriteString(ind + "let v_" + n.Name + " := " + val + " in\n")
			}
		}
		return b.String() + k.block(rest, declared, tail, results, ind)
	case *ast.AssignStmt:
		if len(s.Lhs) != 1 || len(s.Rhs) != 1 {
			return ind + k.fail("multi-assignment")
		}
		id, ok := s.Lhs[0].(*ast.Ident)
		if !ok {
			return ind + k.fail("assignment target")
		}
		rhs := k.expr(s.Rhs[0])
		switch s.Tok {
		case token.ASSIGN, token.DEFINE:
			return bind(id.Name, rhs)
		case token.ADD_ASSIGN:
			return bind(id.Name, "(v_"+id.Name+" + "+rhs+")")
		case token.SUB_ASSIGN:
			return bind(id.Name, "(v_"+id.Name+" - "+rhs+")")
		case token.MUL_ASSIGN:
			return bind(id.Name, "(v_"+id.Name+" * "+rhs+")")
		}
		return ind + k.fail("assignment operator %s", s.Tok)
	case *ast.IncDecStmt:
		id, ok := s.X.(*ast.Ident)
		if !ok {
			return ind + k.fail("inc/dec target")
		}
		if s.Tok == token.INC {
			return bind(id.Name, "(v_"+id.Name+" + 1)")
		}
		return bind(id.Name, "(v_"+id.Name+" - 1)")
	case *ast.IfStmt:
		if s.Init != nil {
			return ind + k.fail("if with init")
		}
		set := map[string]bool{}
		assigned([]ast.Stmt{s}, set)
		var names []string
		for n := range set {
			if declared[n] { // variables local to a branch do not escape
				names = append(names, n)
			}
		}
		sort.Strings(names)
		if len(names) == 0 {
			return k.block(rest, declared, tail, results, ind)
		}
		cp := func() map[string]bool {
			m := map[string]bool{}
			for k, v := range declared {
				m[k] = v
			}
			return m
		}
		thenB := k.block(s.Body.List, cp(), tuple(names), results, ind+"    ")
		elseB := ind + "    " + tuple(names)
		switch e := s.Else.(type) {
		case *ast.BlockStmt:
			elseB = k.block(e.List, cp(), tuple(names), results, ind+"    ")
		case *ast.IfStmt:
			elseB = k.block([]ast.Stmt{e}, cp(), tuple(names), results, ind+"    ")
		}
		return ind + "let " + pattern(names) + " :=\n" + ind + "  if " + k.expr(s.Cond) + " then\n" + thenB + "\n" + ind + "  else\n" + elseB + " in\n" +
			k.block(rest, declared, tail, results, ind)
	case *ast.ReturnStmt:
		if len(rest) != 0 {
			return ind + k.fail("return is not the last statement")
		}
		if len(s.Results) == 0 {
			return ind + tail
		}
		vs := make([]string, len(s.Results))
		for i, r := range s.Results {
			vs[i] = k.expr(r)
		}
		if len(vs) == 1 {
			return ind + vs[0]
		}
		return ind + "(" + strings.Join(vs, ", ") + ")"
	}
	return ind + k.fail("statement %T", s)
}

// funcZ emits `Definition <coq> (v_p1 ... : Z) : Z * ... := ...` for dir.fn.
func funcZ(repo string, e *emitter, dir, fn, coq string) {
	p, err := loadPkg(repo, dir)
	if err != nil {
		e.fail("%v", err)
		return
	}
	fd := p.findFunc(fn)
	if fd == nil || fd.Body == nil {
		e.fail("function %s.%s not found", dir, fn)
		return
	}
	k := &ktrans{}
	var params, results []string
	declared := map[string]bool{}
	for _, f := range fd.Type.Params.List {
		for _, n := range f.Names {
			params = append(params, "v_"+n.Name)
			declared[n.Name] = true
		}
	}
	var pre strings.Builder
	nres := 0
	if fd.Type.Results != nil {
		for _, f := range fd.Type.Results.List {
			if len(f.Names) == 0 {
				nres++
			}
			for _, n := range f.Names {
				results = append(results, n.Name)
				declared[n.Name] = true
				pre.WriteString("  let v_" + n.Name + " := 0 in\n")
				nres++
			}
		}
	}
	tail := "0"
	if len(results) > 0 {
		tail = tuple(results)
	}
	body := k.block(fd.Body.List, declared, tail, results, "  ")
	if len(k.errs) > 0 {
		for _, m := range k.errs {
			e.fail("%s.%s leaves the translatable subset: %s", dir, fn, m)
		}
		return
	}
	ty := "Z"
	for i := 1; i < nres; i++ {
		ty += " * Z"
	}
	fmt.Fprintf(&e.b, "Definition %s (%s : Z) : %s :=\n%s%s.\n", coq, strings.Join(params, " "), ty, pre.String(), body)
}

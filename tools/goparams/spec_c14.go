package main

// C14: constants, enum order and the integer kernels of the cluster manager
// (exec/slicemachine.go), the procs clamp and the manager calls on the exit
// paths of (*bigmachineExecutor).Run (exec/bigmachine.go), the local
// executor's token count (exec/local.go). Kernels are emitted as the source
// text of the statements (canonically printed), pinned by lemmas in
// coq/Properties/C14.v: editing the arithmetic breaks a named obligation.

import (
	"bytes"
	"fmt"
	"go/ast"
	"go/constant"
	"go/printer"
	"go/token"
	"strings"
)

func c14Print(p *pkgInfo, n ast.Node) string {
	var b bytes.Buffer
	cfg := printer.Config{Mode: printer.RawFormat}
	if err := cfg.Fprint(&b, p.fset, n); err != nil {
		return "?"
	}
	return strings.Join(strings.Fields(b.String()), " ")
}

func c14Mentions(n ast.Node, idents map[string]bool) bool {
	found := false
	ast.Inspect(n, func(x ast.Node) bool {
		if _, ok := x.(*ast.FuncLit); ok {
			return false
		}
		if id, ok := x.(*ast.Ident); ok && idents[id.Name] {
			found = true
		}
		return !found
	})
	return found
}

// c14Kernel lists, in source order, the assignments, declarations, if/for
// headers, case clauses and returns of fn that mention one of the identifiers
// (all of them if idents is nil). Bodies of nested blocks are visited, function
// literals are not.
func c14Kernel(p *pkgInfo, fd *ast.FuncDecl, idents []string) []string {
	set := map[string]bool{}
	for _, s := range idents {
		set[s] = true
	}
	want := func(n ast.Node) bool { return idents == nil || c14Mentions(n, set) }
	var out []string
	ast.Inspect(fd.Body, func(n ast.Node) bool {
		switch s := n.(type) {
		case *ast.FuncLit:
			return false
		case *ast.AssignStmt:
			if want(s) {
				out = append(out, c14Print(p, s))
			}
			return false
		case *ast.IncDecStmt:
			if want(s) {
				out = append(out, c14Print(p, s))
			}
		case *ast.ExprStmt:
			if c, isCall := s.X.(*ast.CallExpr); isCall && idents != nil && want(s) {
				if sel, ok := c.Fun.(*ast.SelectorExpr); ok {
					if x, ok := sel.X.(*ast.Ident); ok && x.Name == "log" {
						return false // log texts are not part of the kernel
					}
				}
				out = append(out, c14Print(p, s))
			}
			return false
		case *ast.DeferStmt:
			if _, lit := s.Call.Fun.(*ast.FuncLit); !lit && idents != nil && want(s) {
				out = append(out, c14Print(p, s))
			}
		case *ast.ValueSpec:
			if want(s) {
				out = append(out, "var "+c14Print(p, s))
			}
			return false
		case *ast.IfStmt:
			hdr := "if "
			if s.Init != nil {
				hdr += c14Print(p, s.Init) + "; "
			}
			hdr += c14Print(p, s.Cond)
			if (s.Init != nil && want(s.Init)) || want(s.Cond) {
				out = append(out, hdr)
			}
			// visit body and else, not Init (already printed)
			ast.Inspect(s.Body, func(ast.Node) bool { return false })
			for _, st := range s.Body.List {
				out = append(out, c14KernelStmt(p, st, idents)...)
			}
			if s.Else != nil {
				out = append(out, c14KernelStmt(p, s.Else, idents)...)
			}
			return false
		case *ast.ForStmt:
			if s.Cond != nil && want(s.Cond) {
				out = append(out, "for "+c14Print(p, s.Cond))
			}
		case *ast.SwitchStmt:
			if s.Tag != nil && want(s.Tag) {
				out = append(out, "switch "+c14Print(p, s.Tag))
			}
		case *ast.CaseClause:
			if len(s.List) > 0 {
				var es []string
				w := false
				for _, e := range s.List {
					es = append(es, c14Print(p, e))
					w = w || want(e)
				}
				if w {
					out = append(out, "case "+strings.Join(es, ", "))
				}
			}
		case *ast.ReturnStmt:
			if len(s.Results) > 0 && want(s) {
				out = append(out, c14Print(p, s))
			}
		}
		return true
	})
	return out
}

func c14KernelStmt(p *pkgInfo, st ast.Stmt, idents []string) []string {
	fd := &ast.FuncDecl{Body: &ast.BlockStmt{List: []ast.Stmt{st}}}
	return c14Kernel(p, fd, idents)
}

func c14Strings(e *emitter, coq string, ss []string) {
	qs := make([]string, len(ss))
	for i, s := range ss {
		qs[i] = "\"" + strings.ReplaceAll(s, "\"", "\"\"") + "\"%string"
	}
	fmt.Fprintf(&e.b, "Definition %s : list string := [\n  %s].\n", coq, strings.Join(qs, ";\n  "))
}

func c14KernelOf(repo string, e *emitter, dir, fn, coq string, idents []string) {
	p, err := loadPkg(repo, dir)
	if err != nil {
		e.fail("%v", err)
		return
	}
	fd := p.findFunc(fn)
	if fd == nil || fd.Body == nil {
		e.fail("function %s.%s not found", dir, fn)
		return
	}
	c14Strings(e, coq, c14Kernel(p, fd, idents))
}

// c14RunExits classifies every return statement of Run that comes after the
// call of mgr.Offer: 1 = a call m.Done(..) precedes it in the same statement
// list, 2 = a call cancel() precedes it, 0 = neither. Plus the number of
// m.Done calls at the top level of the function body (the path that runs the
// task).
func c14RunExits(repo string, e *emitter) {
	p, err := loadPkg(repo, "exec")
	if err != nil {
		e.fail("%v", err)
		return
	}
	fd := p.findFunc("bigmachineExecutor.Run")
	if fd == nil || fd.Body == nil {
		e.fail("function exec.bigmachineExecutor.Run not found")
		return
	}
	var offerPos token.Pos
	ast.Inspect(fd.Body, func(n ast.Node) bool {
		if c, ok := n.(*ast.CallExpr); ok {
			if s, ok := c.Fun.(*ast.SelectorExpr); ok && s.Sel.Name == "Offer" && offerPos == token.NoPos {
				offerPos = c.Pos()
			}
		}
		return true
	})
	if offerPos == token.NoPos {
		e.fail("Run: no call of Offer found")
		return
	}
	isCall := func(st ast.Stmt, recv, name string) bool {
		es, ok := st.(*ast.ExprStmt)
		if !ok {
			return false
		}
		c, ok := es.X.(*ast.CallExpr)
		if !ok {
			return false
		}
		switch f := c.Fun.(type) {
		case *ast.SelectorExpr:
			x, ok := f.X.(*ast.Ident)
			return ok && x.Name == recv && f.Sel.Name == name
		case *ast.Ident:
			return recv == "" && f.Name == name
		}
		return false
	}
	var codes []string
	var scan func(list []ast.Stmt)
	scan = func(list []ast.Stmt) {
		for i, st := range list {
			if r, ok := st.(*ast.ReturnStmt); ok && r.Pos() > offerPos {
				code := 0
				for _, prev := range list[:i] {
					if isCall(prev, "m", "Done") {
						code = 1
					} else if isCall(prev, "", "cancel") && code == 0 {
						code = 2
					}
				}
				codes = append(codes, fmt.Sprint(code))
			}
		}
	}
	ast.Inspect(fd.Body, func(n ast.Node) bool {
		switch s := n.(type) {
		case *ast.FuncLit:
			return false
		case *ast.BlockStmt:
			scan(s.List)
		case *ast.CaseClause:
			scan(s.Body)
		case *ast.CommClause:
			scan(s.Body)
		}
		return true
	})
	top := 0
	for _, st := range fd.Body.List {
		if isCall(st, "m", "Done") {
			top++
		}
	}
	fmt.Fprintf(&e.b, "Definition run_exit_codes : list Z := [%s].\n", strings.Join(codes, "; "))
	fmt.Fprintf(&e.b, "Definition run_tail_done_calls : Z := %d.\n", top)
}

func init() {
	specs = append(specs, spec{"C14_params.v", func(repo string, e *emitter) {
		constZ(repo, e, "exec", "maxStartMachines", "max_start_machines")
		enumZ(repo, e, "exec", []string{"machineOk", "machineProbation", "machineLost"}, "health_")
		p, err := loadPkg(repo, "exec")
		if err != nil {
			e.fail("%v", err)
			return
		}
		// DefaultMaxLoad: a float constant, emitted as the exact rational of its literal
		if v, ok := p.consts["DefaultMaxLoad"]; ok && (v.Kind() == constant.Float || v.Kind() == constant.Int) {
			fmt.Fprintf(&e.b, "Definition default_max_load_num : Z := %s.\n", zlit(constant.Num(v)))
			fmt.Fprintf(&e.b, "Definition default_max_load_den : Z := %s.\n", zlit(constant.Denom(v)))
		} else {
			e.fail("constant exec.DefaultMaxLoad not found")
		}
		// var ProbationTimeout = 30 * time.Second  (nanoseconds)
		if x := p.findVarInit("ProbationTimeout"); x != nil {
			if v, ok := p.eval(x, 0, nil); ok && v.Kind() == constant.Int {
				fmt.Fprintf(&e.b, "Definition probation_timeout_ns : Z := %s.\n", zlit(v))
			} else {
				e.fail("exec.ProbationTimeout: initialiser is not a constant")
			}
		} else {
			e.fail("var exec.ProbationTimeout not found")
		}
		c14KernelOf(repo, e, "exec", "schedule", "schedule_kernel", nil)
		c14KernelOf(repo, e, "exec", "scheduleRequestQ.Less", "req_less_kernel", nil)
		c14KernelOf(repo, e, "exec", "machineQ.Less", "mach_less_kernel", nil)
		c14KernelOf(repo, e, "exec", "newMachineManager", "new_manager_kernel", []string{"machprocs", "maxp", "maxprocs"})
		c14KernelOf(repo, e, "exec", "machineManager.Do", "do_kernel",
			[]string{"need", "pending", "taskProcs", "have", "needProcs", "needMachines", "health", "machQ", "probation"})
		c14KernelOf(repo, e, "exec", "bigmachineExecutor.Run", "run_procs_kernel", []string{"procs"})
		c14KernelOf(repo, e, "exec", "localExecutor.Run", "local_kernel", []string{"n", "Exclusive"})
		c14KernelOf(repo, e, ".", "Pragmas.Procs", "pragmas_procs_kernel", nil)
		c14RunExits(repo, e)
	}})
}

package main

import (
	"bytes"
	"fmt"
	"go/ast"
	"go/constant"
	"go/printer"
	"go/token"
	"strings"
)

// C17 — what the reader models take from the source as numbers or integer
// kernels (everything else is tied by the correspondence check):
//
//	slice.go                  constShard (rows of a Const shard): translated to Gallina
//	internal/defaultsize      flag default of Chunk: the vector size used by
//	                          foldReader.compute, Scanner, FrameBuffer.Fill, bufferOutput
//	slice.go                  headReader.Read: the literals of `h.n <= 0`, `h.n < 0`
//	exec/buffer.go            taskBufferReader.Read: the cursor reset literals
//	sliceio/reader.go, exec/local.go  multiReader.Read: the literals of `len(m.q) > 0`, `n > 0`, `return 0, EOF`
func init() {
	specs = append(specs, spec{"C17_params.v", func(repo string, e *emitter) {
		funcZ(repo, e, ".", "constShard", "c17_const_shard")
		if v, ok := c17FlagIntDefault(repo, e, "internal/defaultsize", "Chunk"); ok {
			fmt.Fprintf(&e.b, "Definition c17_chunk : Z := %s.\n", zlit(v))
		}
		intLitsInFunc(repo, e, ".", "headReader.Read", "c17_head_literals")
		// headReader.Read is transcribed statement by statement by the model; its
		// integer literals are the same before and after the repair that cuts the
		// read to h.n rows, so the (comment-free, whitespace-normalised) body is pinned
		c17FuncText(repo, e, ".", "headReader.Read", "c17_head_read_src")
		intLitsInFunc(repo, e, "exec", "taskBufferReader.Read", "c17_taskbuf_literals")
		intLitsInFunc(repo, e, "sliceio", "multiReader.Read", "c17_multi_sliceio_literals")
		intLitsInFunc(repo, e, "exec", "multiReader.Read", "c17_multi_exec_literals")
	}})
}

// c17FlagIntDefault folds <default> of flag.IntVar(&<name>, "...", <default>, "...") in package dir.
func c17FlagIntDefault(repo string, e *emitter, dir, name string) (constant.Value, bool) {
	p, err := loadPkg(repo, dir)
	if err != nil {
		e.fail("%v", err)
		return nil, false
	}
	var found constant.Value
	for _, fn := range sortedKeys(p.files) {
		ast.Inspect(p.files[fn], func(n ast.Node) bool {
			call, ok := n.(*ast.CallExpr)
			if !ok || len(call.Args) != 4 {
				return true
			}
			sel, ok := call.Fun.(*ast.SelectorExpr)
			if !ok || sel.Sel.Name != "IntVar" {
				return true
			}
			un, ok := call.Args[0].(*ast.UnaryExpr)
			if !ok || un.Op != token.AND {
				return true
			}
			if id, ok := un.X.(*ast.Ident); !ok || id.Name != name {
				return true
			}
			if v, ok := p.eval(call.Args[2], 0, nil); ok && v.Kind() == constant.Int {
				found = v
			}
			return true
		})
	}
	if found == nil {
		e.fail("flag.IntVar(&%s, ...) with an integer default not found in %s", name, dir)
		return nil, false
	}
	return found, true
}

// c17FuncText emits the whitespace-normalised source of a function body as a Coq string.
func c17FuncText(repo string, e *emitter, dir, fn, coq string) {
	p, err := loadPkg(repo, dir)
	if err != nil {
		e.fail("%v", err)
		return
	}
	fd := p.findFunc(fn)
	if fd == nil || fd.Body == nil {
		e.fail("function %s.%s not found", dir, fn)
		return
	}
	var b bytes.Buffer
	if err := printer.Fprint(&b, p.fset, fd.Body); err != nil {
		e.fail("cannot print %s.%s: %v", dir, fn, err)
		return
	}
	txt := strings.Join(strings.Fields(b.String()), " ")
	fmt.Fprintf(&e.b, "Definition %s : string := \"%s\"%%string.\n", coq, strings.ReplaceAll(txt, "\"", "\"\""))
}

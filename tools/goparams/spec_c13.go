package main

// C13 (caching is transparent, complete-or-absent, and skips recomputation):
// the control-flow facts of the shard cache that coq/C13/Compile.v takes as
// switches.
//
//   internal/slicecache/sliceio.go  writethroughReader.Read: the temp file is
//       created on the first read; a batch is written before it is returned; the
//       file is closed (= published) only in the EOF branch, after the write;
//       an upstream error discards it; write and close errors are returned.
//   internal/slicecache/slicecache.go  RequireAllCached clears every mark if one
//       is missing (loops over all shards); the path of a shard file; the same
//       path is read and written; IsCached / CacheReader consult the marks.
//   cache.go  which constructors call RequireAllCached; the cache operator's
//       reader is its dependency.
//   exec/compile.go  a shard marked cached reads the cache file and forgets its
//       dependencies; every other shard reads through a write-through reader;
//       marks are taken only in a writable environment; innermost operator first.
//
// Pinned by the C13_gen_* lemmas of coq/C13/CompileProofs.v.

import (
	"fmt"
	"go/ast"
	"go/constant"
	"go/token"
	"strings"
)

// c13Within reports whether pos lies inside node n.
func c13Within(n ast.Node, pos token.Pos) bool { return n != nil && n.Pos() <= pos && pos < n.End() }

// c13Sels lists the positions of selector expressions x.<name> under n.
func c13Sels(n ast.Node, name string) []token.Pos {
	var out []token.Pos
	ast.Inspect(n, func(x ast.Node) bool {
		if s, ok := x.(*ast.SelectorExpr); ok && s.Sel.Name == name {
			out = append(out, s.Pos())
		}
		return true
	})
	return out
}

// c13LoopHeaders renders the headers of all loops of n in source order.
func c13LoopHeaders(p *pkgInfo, n ast.Node) []string {
	var out []string
	ast.Inspect(n, func(x ast.Node) bool {
		switch s := x.(type) {
		case *ast.RangeStmt:
			h := "for "
			if s.Key != nil {
				h += c14Print(p, s.Key)
				if s.Value != nil {
					h += ", " + c14Print(p, s.Value)
				}
				h += " " + s.Tok.String() + " "
			}
			out = append(out, h+"range "+c14Print(p, s.X))
		case *ast.ForStmt:
			h := "for "
			if s.Init != nil {
				h += c14Print(p, s.Init)
			}
			h += "; "
			if s.Cond != nil {
				h += c14Print(p, s.Cond)
			}
			h += "; "
			if s.Post != nil {
				h += c14Print(p, s.Post)
			}
			out = append(out, h)
		}
		return true
	})
	return out
}

// c13FullRange reports whether loop iterates over every index of `over`:
// a range loop over it, or `for i := 0; i < len(over); i++`.
func c13FullRange(p *pkgInfo, loop ast.Stmt, over string) bool {
	switch s := loop.(type) {
	case *ast.RangeStmt:
		return c14Print(p, s.X) == over
	case *ast.ForStmt:
		if s.Init == nil || s.Cond == nil || s.Post == nil {
			return false
		}
		init, cond, post := c14Print(p, s.Init), c14Print(p, s.Cond), c14Print(p, s.Post)
		v := strings.TrimSuffix(init, " := 0")
		return v != init && cond == v+" < len("+over+")" && post == v+"++"
	}
	return false
}

func c13ReturnsFuncCalls(p *pkgInfo, fd *ast.FuncDecl) []string {
	var out []string
	ast.Inspect(fd.Body, func(n ast.Node) bool {
		if r, ok := n.(*ast.ReturnStmt); ok {
			out = append(out, c14Print(p, r))
		}
		return true
	})
	return out
}

func init() {
	specs = append(specs, spec{"C13_params.v", func(repo string, e *emitter) {
		pc, err := loadPkg(repo, "internal/slicecache")
		if err != nil {
			e.fail("%v", err)
			return
		}
		root, err := loadPkg(repo, ".")
		if err != nil {
			e.fail("%v", err)
			return
		}
		px, err := loadPkg(repo, "exec")
		if err != nil {
			e.fail("%v", err)
			return
		}
		get := func(p *pkgInfo, dir, name string) *ast.FuncDecl {
			fd := p.findFunc(name)
			if fd == nil || fd.Body == nil {
				e.fail("function %s.%s not found", dir, name)
				return nil
			}
			return fd
		}

		// ---- writethroughReader.Read
		fmt.Fprintf(&e.b, "(* internal/slicecache/sliceio.go: writethroughReader.Read *)\n")
		if fd := get(pc, "slicecache", "writethroughReader.Read"); fd != nil {
			c14Strings(e, "wt_read_kernel", c14Kernel(pc, fd, []string{"r", "err", "n", "closeErr", "writeErr"}))
			var (
				createFirst, readThenBranch, writeFirst, writeErrReturned bool
				commitOnlyEOF, commitAfterWrite, closeErrReturned         bool
				discardOnError, discardOnlyOnError, errBranchNoCommit     bool
				okCond                                                    string
			)
			// first statement: `if r.file == nil { ... file.Create ... }`
			if len(fd.Body.List) > 0 {
				if is, ok := fd.Body.List[0].(*ast.IfStmt); ok && c14Print(pc, is.Cond) == "r.file == nil" && c06Calls(is.Body, "file.Create", false) {
					createFirst = true
				}
			}
			// `n, err := r.Reader.Read(ctx, frame)` directly followed by `if <ok> {..} else {..}`
			var okIf *ast.IfStmt
			for i, st := range fd.Body.List {
				if as, ok := st.(*ast.AssignStmt); ok && len(as.Rhs) == 1 && c06Calls(as.Rhs[0], "r.Reader.Read", false) && i+1 < len(fd.Body.List) {
					if is, ok := fd.Body.List[i+1].(*ast.IfStmt); ok && is.Init == nil {
						okIf, readThenBranch = is, true
					}
				}
			}
			if okIf != nil {
				okCond = c14Print(pc, okIf.Cond)
				var writeIf, eofIf *ast.IfStmt
				for i, st := range okIf.Body.List {
					is, ok := st.(*ast.IfStmt)
					if !ok {
						continue
					}
					if is.Init != nil && c06Calls(is.Init, "r.enc.Write", false) {
						writeIf = is
						writeFirst = i == 0
						if n := len(is.Body.List); n > 0 {
							writeErrReturned = c14Print(pc, is.Body.List[n-1]) == "return n, writeErr" && c14Print(pc, is.Cond) == "writeErr != nil"
						}
					}
					if is.Init == nil && c14Print(pc, is.Cond) == "err == sliceio.EOF" {
						eofIf = is
					}
				}
				closes := c13Sels(fd.Body, "Close")
				commitOnlyEOF = eofIf != nil && len(closes) > 0
				for _, pos := range closes {
					if eofIf == nil || !c13Within(eofIf, pos) {
						commitOnlyEOF = false
					}
				}
				commitAfterWrite = writeIf != nil && eofIf != nil && writeIf.End() <= eofIf.Pos()
				if eofIf != nil {
					ast.Inspect(eofIf.Body, func(n ast.Node) bool {
						if is, ok := n.(*ast.IfStmt); ok && c14Print(pc, is.Cond) == "closeErr != nil" && len(is.Body.List) > 0 {
							closeErrReturned = c14Print(pc, is.Body.List[len(is.Body.List)-1]) == "return n, closeErr"
						}
						return true
					})
				}
				discards := c13Sels(fd.Body, "Discard")
				els, _ := okIf.Else.(*ast.BlockStmt)
				discardOnError = els != nil && c06Calls(els, "r.file.Discard", false)
				discardOnlyOnError = len(discards) > 0
				for _, pos := range discards {
					if els == nil || !c13Within(els, pos) {
						discardOnlyOnError = false
					}
				}
				errBranchNoCommit = els != nil && len(c13Sels(els, "Close")) == 0
			}
			fmt.Fprintf(&e.b, "Definition wt_ok_cond : string := %s.\n", c06Str(okCond))
			for _, kv := range []struct {
				n string
				v bool
			}{
				{"wt_creates_on_first_read", createFirst}, {"wt_branches_on_read_result", readThenBranch},
				{"wt_writes_before_return", writeFirst}, {"wt_write_error_returned", writeErrReturned},
				{"wt_commit_only_at_eof", commitOnlyEOF}, {"wt_commit_after_write", commitAfterWrite},
				{"wt_close_error_returned", closeErrReturned}, {"wt_discard_on_error", discardOnError},
				{"wt_discard_only_on_error", discardOnlyOnError}, {"wt_error_branch_never_commits", errBranchNoCommit},
			} {
				fmt.Fprintf(&e.b, "Definition %s : bool := %s.\n", kv.n, c15Bool(kv.v))
			}
		}

		// ---- FileShardCache
		fmt.Fprintf(&e.b, "\n(* internal/slicecache/slicecache.go *)\n")
		if v, ok := pc.consts["pathFormat"]; ok && v.Kind() == constant.String {
			fmt.Fprintf(&e.b, "Definition path_format : string := %s.\n", c06Str(constant.StringVal(v)))
		} else {
			e.fail("string constant slicecache.pathFormat not found")
		}
		if fd := get(pc, "slicecache", "FileShardCache.path"); fd != nil {
			fmt.Fprintf(&e.b, "Definition path_kernel : list string := %s.\n", c06StrList(c13ReturnsFuncCalls(pc, fd)))
		}
		if fd := get(pc, "slicecache", "FileShardCache.RequireAllCached"); fd != nil {
			c14Strings(e, "require_all_kernel", c14Kernel(pc, fd, nil))
			fmt.Fprintf(&e.b, "Definition require_all_loops : list string := %s.\n", c06StrList(c13LoopHeaders(pc, fd.Body)))
			// outer loop over all marks; `if !b {` inner loop over all marks clearing each; return
			allShards, clearsEach, stops, testsMissing := false, false, false, false
			for _, st := range fd.Body.List {
				var body *ast.BlockStmt
				switch s := st.(type) {
				case *ast.RangeStmt:
					body = s.Body
				case *ast.ForStmt:
					body = s.Body
				default:
					continue
				}
				outerFull := c13FullRange(pc, st, "c.shardIsCached")
				for _, b := range body.List {
					is, ok := b.(*ast.IfStmt)
					if !ok || is.Init != nil {
						continue
					}
					cond := c14Print(pc, is.Cond)
					testsMissing = cond == "!b" || cond == "!c.shardIsCached[i]"
					for j, in := range is.Body.List {
						var ib *ast.BlockStmt
						switch s := in.(type) {
						case *ast.RangeStmt:
							ib = s.Body
						case *ast.ForStmt:
							ib = s.Body
						default:
							continue
						}
						allShards = outerFull && c13FullRange(pc, in, "c.shardIsCached")
						if len(ib.List) == 1 {
							t := c14Print(pc, ib.List[0])
							clearsEach = strings.HasPrefix(t, "c.shardIsCached[") && strings.HasSuffix(t, "] = false")
						}
						if j+1 < len(is.Body.List) {
							_, stops = is.Body.List[j+1].(*ast.ReturnStmt)
						}
					}
				}
			}
			fmt.Fprintf(&e.b, "Definition require_all_covers_all_shards : bool := %s.\n", c15Bool(allShards))
			fmt.Fprintf(&e.b, "Definition require_all_tests_missing : bool := %s.\n", c15Bool(testsMissing))
			fmt.Fprintf(&e.b, "Definition require_all_clears_each : bool := %s.\n", c15Bool(clearsEach))
			fmt.Fprintf(&e.b, "Definition require_all_stops_after_clear : bool := %s.\n", c15Bool(stops))
		}
		if fd := get(pc, "slicecache", "NewFileShardCache"); fd != nil {
			// the marks are taken inside the function literal handed to Each
			var marks []string
			ast.Inspect(fd.Body, func(n ast.Node) bool {
				if l, ok := n.(*ast.FuncLit); ok {
					marks = append(marks, c14Kernel(pc, &ast.FuncDecl{Body: l.Body}, []string{"shardIsCached", "Stat"})...)
				}
				return true
			})
			c14Strings(e, "new_cache_mark_kernel", marks)
		}
		if fd := get(pc, "slicecache", "FileShardCache.IsCached"); fd != nil {
			fmt.Fprintf(&e.b, "Definition is_cached_returns : list string := %s.\n", c06StrList(c13ReturnsFuncCalls(pc, fd)))
		}
		if fd := get(pc, "slicecache", "FileShardCache.CacheReader"); fd != nil {
			conds := c07IfConds(pc.fset, fd)
			fmt.Fprintf(&e.b, "Definition cache_reader_conds : list string := %s.\n", c06StrList(conds))
			rets := c13ReturnsFuncCalls(pc, fd)
			fmt.Fprintf(&e.b, "Definition cache_reader_returns : list string := %s.\n", c06StrList(rets))
		}
		if fd := get(pc, "slicecache", "FileShardCache.WritethroughReader"); fd != nil {
			fmt.Fprintf(&e.b, "Definition writethrough_returns : list string := %s.\n", c06StrList(c13ReturnsFuncCalls(pc, fd)))
		}

		// ---- cache.go
		fmt.Fprintf(&e.b, "\n(* cache.go *)\n")
		{
			var rows []string
			for _, fn := range []string{"Cache", "CachePartial", "ReadCache"} {
				fd := get(root, ".", fn)
				if fd == nil {
					return
				}
				rows = append(rows, fmt.Sprintf("(%s, %s)", c06Str(fn), c15Bool(c06Calls(fd.Body, "shardCache.RequireAllCached", false))))
			}
			fmt.Fprintf(&e.b, "Definition cache_requires_all : list (string * bool) := [%s].\n", strings.Join(rows, "; "))
			if fd := get(root, ".", "cacheSlice.Reader"); fd != nil {
				fmt.Fprintf(&e.b, "Definition cache_slice_reader : list string := %s.\n", c06StrList(c13ReturnsFuncCalls(root, fd)))
			}
			if fd := get(root, ".", "readCacheSlice.Reader"); fd != nil {
				fmt.Fprintf(&e.b, "Definition read_cache_slice_reader : list string := %s.\n", c06StrList(c13ReturnsFuncCalls(root, fd)))
			}
		}

		// ---- exec/compile.go
		fmt.Fprintf(&e.b, "\n(* exec/compile.go: the pipeline loop at the end of compiler.compile *)\n")
		if fd := get(px, "exec", "compiler.compile"); fd != nil {
			var loop *ast.ForStmt
			for _, st := range fd.Body.List {
				if f, ok := st.(*ast.ForStmt); ok && f.Init != nil && strings.HasPrefix(c14Print(px, f.Init), "opIdx :=") {
					loop = f
				}
			}
			if loop == nil {
				e.fail("compiler.compile: the loop over opIdx was not found")
				return
			}
			fmt.Fprintf(&e.b, "Definition compile_pipeline_loop : string := %s.\n",
				c06Str(c14Print(px, loop.Init)+"; "+c14Print(px, loop.Cond)+"; "+c14Print(px, loop.Post)))
			c14Strings(e, "compile_cache_kernel", c14Kernel(px, &ast.FuncDecl{Body: loop.Body},
				[]string{"Deps", "IsCached", "MarkCached", "IsWritable", "Cacheable", "Cache", "Empty"}))
			var (
				marksIfWritable, marksFromShardCache        bool
				cachedIf                                    *ast.IfStmt
				dropsDeps, readsCache, skipsRest, ignoresIn bool
				writeThrough                                = 0
				otherDo                                     = 0
			)
			ast.Inspect(loop.Body, func(n ast.Node) bool {
				is, ok := n.(*ast.IfStmt)
				if !ok {
					return true
				}
				switch c14Print(px, is.Cond) {
				case "c.inv.Env.IsWritable()":
					ast.Inspect(is.Body, func(m ast.Node) bool {
						if in, ok := m.(*ast.IfStmt); ok && c14Print(px, in.Cond) == "shardCache.IsCached(shard)" && c06Calls(in.Body, "c.inv.Env.MarkCached", false) {
							marksFromShardCache = true
						}
						return true
					})
					marksIfWritable = marksFromShardCache
				case "c.inv.Env.IsCached(task.Name, opIdx)":
					cachedIf = is
				}
				return true
			})
			// MarkCached must not be called outside the IsWritable branch
			if cachedIf != nil {
				for i, st := range cachedIf.Body.List {
					switch s := st.(type) {
					case *ast.AssignStmt:
						t := c14Print(px, s.Lhs[0])
						if t == "task.Deps" && c14Print(px, s.Rhs[0]) == "nil" {
							dropsDeps = true
						}
						if t == "task.Do" {
							if l, ok := s.Rhs[0].(*ast.FuncLit); ok {
								readsCache = c06Calls(l.Body, "shardCache.CacheReader", false)
								// the literal ignores its argument: the dependency readers are not consulted
								ignoresIn = true
								for _, f := range l.Type.Params.List {
									if len(f.Names) > 0 {
										ignoresIn = false
									}
								}
								if c06Calls(l.Body, "prev", false) || c06Calls(l.Body, "reader", false) {
									ignoresIn = false
								}
							}
						}
					case *ast.BranchStmt:
						skipsRest = s.Tok == token.CONTINUE && i == len(cachedIf.Body.List)-1
					}
				}
			}
			ast.Inspect(loop.Body, func(n ast.Node) bool {
				as, ok := n.(*ast.AssignStmt)
				if !ok || len(as.Lhs) != 1 || c14Print(px, as.Lhs[0]) != "task.Do" || (cachedIf != nil && c13Within(cachedIf, as.Pos())) {
					return true
				}
				if l, ok := as.Rhs[0].(*ast.FuncLit); ok {
					otherDo++
					if c06Calls(l.Body, "shardCache.WritethroughReader", false) {
						writeThrough++
					}
				}
				return true
			})
			for _, kv := range []struct {
				n string
				v bool
			}{
				{"compile_marks_only_if_writable", marksIfWritable},
				{"compile_marks_from_shard_cache", marksFromShardCache},
				{"compile_cached_reads_cache_file", readsCache},
				{"compile_cached_ignores_inputs", ignoresIn},
				{"compile_cached_drops_deps", dropsDeps},
				{"compile_cached_skips_rest", skipsRest},
				{"compile_uncached_writes_through", otherDo > 0 && writeThrough == otherDo},
			} {
				fmt.Fprintf(&e.b, "Definition %s : bool := %s.\n", kv.n, c15Bool(kv.v))
			}
			fmt.Fprintf(&e.b, "Definition compile_uncached_do_variants : Z := %d.\n", otherDo)
		}
		for _, fn := range []string{"CompileEnv.IsCached", "CompileEnv.MarkCached"} {
			if fd := get(px, "exec", fn); fd != nil {
				name := "env_" + strings.ToLower(strings.TrimPrefix(fn, "CompileEnv.")) + "_kernel"
				c14Strings(e, name, c14Kernel(px, fd, nil))
			}
		}
	}})
}

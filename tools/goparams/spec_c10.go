package main

import (
	"fmt"
	"go/ast"
	"go/constant"
	"go/token"
)

// C10: the size defaults the sort/merge/reduce model is run with, and the
// tolerance literal of SortReader's run-length arithmetic.
//
//	internal/defaultsize/size.go  flag.IntVar(&Chunk, ..., 128, ...), flag.IntVar(&SortCanary, ..., 1<<8, ...)
//	sliceio/reader.go             var defaultChunksize = defaultsize.Chunk
//	sliceio/spiller.go            var SpillBatchSize = defaultChunksize
//	sortio/reader.go              var defaultChunksize = defaultsize.Chunk
//	sortio/sort.go                var numCanaryRows = &defaultsize.SortCanary;  "> 0.05", "< 1", "= 1" in SortReader
func init() {
	specs = append(specs, spec{"C10_params.v", genC10})
}

// c10FlagIntDefault finds flag.IntVar(&<name>, "...", <default>, "...") in the init
// function of package dir and folds <default>.
func c10FlagIntDefault(repo string, e *emitter, dir, name string) (constant.Value, bool) {
	p, err := loadPkg(repo, dir)
	if err != nil {
		e.fail("%v", err)
		return nil, false
	}
	var found constant.Value
	for _, fn := range sortedKeys(p.files) {
		ast.Inspect(p.files[fn], func(n ast.Node) bool {
			call, ok := n.(*ast.CallExpr)
			if !ok || len(call.Args) != 4 {
				return true
			}
			sel, ok := call.Fun.(*ast.SelectorExpr)
			if !ok || sel.Sel.Name != "IntVar" {
				return true
			}
			if x, ok := sel.X.(*ast.Ident); !ok || x.Name != "flag" {
				return true
			}
			un, ok := call.Args[0].(*ast.UnaryExpr)
			if !ok || un.Op != token.AND {
				return true
			}
			if id, ok := un.X.(*ast.Ident); !ok || id.Name != name {
				return true
			}
			if v, ok := p.eval(call.Args[2], 0, nil); ok && v.Kind() == constant.Int {
				found = v
			}
			return true
		})
	}
	if found == nil {
		e.fail("flag.IntVar(&%s, ...) with an integer default not found in %s", name, dir)
		return nil, false
	}
	return found, true
}

// c10VarIs reports whether package-level variable name of dir is initialised with
// exactly the expression want (printed form: "x", "pkg.X" or "&pkg.X").
func c10VarIs(repo string, e *emitter, dir, name, want string) bool {
	p, err := loadPkg(repo, dir)
	if err != nil {
		e.fail("%v", err)
		return false
	}
	init := p.findVarInit(name)
	if init == nil {
		e.fail("variable %s.%s not found", dir, name)
		return false
	}
	if got := c10ExprString(init); got != want {
		e.fail("variable %s.%s is initialised with %q, the model assumes %q", dir, name, got, want)
		return false
	}
	return true
}

func c10ExprString(x ast.Expr) string {
	switch x := x.(type) {
	case *ast.Ident:
		return x.Name
	case *ast.SelectorExpr:
		return c10ExprString(x.X) + "." + x.Sel.Name
	case *ast.UnaryExpr:
		return x.Op.String() + c10ExprString(x.X)
	case *ast.ParenExpr:
		return c10ExprString(x.X)
	}
	return fmt.Sprintf("<%T>", x)
}

func genC10(repo string, e *emitter) {
	chunk, ok1 := c10FlagIntDefault(repo, e, "internal/defaultsize", "Chunk")
	canary, ok2 := c10FlagIntDefault(repo, e, "internal/defaultsize", "SortCanary")
	if ok1 {
		fmt.Fprintf(&e.b, "Definition chunk_default : Z := %s.\n", zlit(chunk))
	}
	if ok2 {
		fmt.Fprintf(&e.b, "Definition sort_canary_default : Z := %s.\n", zlit(canary))
	}
	// the chain of initialisers from the defaults to the variables the code reads
	if ok1 && c10VarIs(repo, e, "sliceio", "defaultChunksize", "defaultsize.Chunk") &&
		c10VarIs(repo, e, "sliceio", "SpillBatchSize", "defaultChunksize") {
		fmt.Fprintf(&e.b, "Definition spill_batch_default : Z := chunk_default.\n")
	}
	if ok1 && c10VarIs(repo, e, "sortio", "defaultChunksize", "defaultsize.Chunk") {
		fmt.Fprintf(&e.b, "Definition reduce_chunk : Z := chunk_default.\n")
	}
	if ok2 && c10VarIs(repo, e, "sortio", "numCanaryRows", "&defaultsize.SortCanary") {
		fmt.Fprintf(&e.b, "Definition sort_canary : Z := sort_canary_default.\n")
	}
	// the floating-point literals of SortReader, as exact fractions (num, den)
	p, err := loadPkg(repo, "sortio")
	if err != nil {
		e.fail("%v", err)
		return
	}
	fd := p.findFunc("SortReader")
	if fd == nil || fd.Body == nil {
		e.fail("function sortio.SortReader not found")
		return
	}
	var fracs []string
	ast.Inspect(fd.Body, func(n ast.Node) bool {
		if bl, ok := n.(*ast.BasicLit); ok && bl.Kind == token.FLOAT {
			v := constant.MakeFromLiteral(bl.Value, bl.Kind, 0)
			fracs = append(fracs, fmt.Sprintf("(%s, %s)", zlit(constant.Num(v)), zlit(constant.Denom(v))))
		}
		return true
	})
	fmt.Fprintf(&e.b, "Definition sort_reader_float_literals : list (Z * Z) := [%s].\n", c10JoinSemi(fracs))
	// the integer literals of SortReader: the clamp `if bytesPerRow < 1 { bytesPerRow = 1 }`
	intLitsInFunc(repo, e, "sortio", "SortReader", "sort_reader_int_literals")
}

func c10JoinSemi(xs []string) string {
	s := ""
	for i, x := range xs {
		if i > 0 {
			s += "; "
		}
		s += x
	}
	return s
}

package main

// C03 (evaluator): TaskState enum order, maxConsecutiveLost, and the pure
// classification switches of state.Enqueue / state.Return / the waiter
// goroutine of Eval, emitted as tables of case-label groups (source order).
// The Coq model's classification functions are pinned to these tables by the
// C03_gen_* lemmas of coq/Properties/C03.v.

import (
	"fmt"
	"go/ast"
	"go/constant"
	"go/token"
	"strings"
)

// c03SwitchTables emits, for every `switch` statement in the body of fn (in
// source order, closures included), the list of its case clauses; each clause
// is the list of the integer values of its case labels (which must be package
// constants), and `default` is the empty list. Result:
//
//	Definition <coq> : list (list (list Z)) := [ [[3; 4]; [1; 2]; [0; 5]] ].
//
// together with <coq>_nswitch, so that adding or dropping a switch is visible.
func c03SwitchTables(repo string, e *emitter, dir, fn, coq string) {
	p, err := loadPkg(repo, dir)
	if err != nil {
		e.fail("%v", err)
		return
	}
	fd := p.findFunc(fn)
	if fd == nil || fd.Body == nil {
		e.fail("function %s.%s not found", dir, fn)
		return
	}
	var switches []string
	ast.Inspect(fd.Body, func(n ast.Node) bool {
		sw, ok := n.(*ast.SwitchStmt)
		if !ok {
			return true
		}
		var clauses []string
		for _, st := range sw.Body.List {
			cc, ok := st.(*ast.CaseClause)
			if !ok {
				continue
			}
			var labels []string
			for _, x := range cc.List {
				v, ok := p.eval(x, 0, nil)
				if !ok || v.Kind() != constant.Int {
					e.fail("%s.%s: case label is not an integer constant", dir, fn)
					continue
				}
				labels = append(labels, zlit(v))
			}
			clauses = append(clauses, "["+strings.Join(labels, "; ")+"]")
		}
		switches = append(switches, "["+strings.Join(clauses, "; ")+"]")
		return true
	})
	fmt.Fprintf(&e.b, "Definition %s : list (list (list Z)) := [%s].\n", coq, strings.Join(switches, "; "))
}

// c03Comparisons emits the comparisons `<x>.state OP <Const>` found in fn, in
// source order, as pairs (operator code, constant): == 0, != 1, < 2, <= 3,
// > 4, >= 5.
func c03Comparisons(repo string, e *emitter, dir, fn, coq string) {
	p, err := loadPkg(repo, dir)
	if err != nil {
		e.fail("%v", err)
		return
	}
	fd := p.findFunc(fn)
	if fd == nil || fd.Body == nil {
		e.fail("function %s.%s not found", dir, fn)
		return
	}
	opc := map[token.Token]int{token.EQL: 0, token.NEQ: 1, token.LSS: 2, token.LEQ: 3, token.GTR: 4, token.GEQ: 5}
	var items []string
	ast.Inspect(fd.Body, func(n ast.Node) bool {
		be, ok := n.(*ast.BinaryExpr)
		if !ok {
			return true
		}
		code, ok := opc[be.Op]
		if !ok {
			return true
		}
		sel, ok := be.X.(*ast.SelectorExpr)
		if !ok || sel.Sel.Name != "state" {
			return true
		}
		v, ok := p.eval(be.Y, 0, nil)
		if !ok || v.Kind() != constant.Int {
			e.fail("%s.%s: state compared with a non-constant", dir, fn)
			return true
		}
		items = append(items, fmt.Sprintf("(%d, %s)", code, zlit(v)))
		return true
	})
	fmt.Fprintf(&e.b, "Definition %s : list (Z * Z) := [%s].\n", coq, strings.Join(items, "; "))
}

// c03LossAccounting reads two structural facts off Eval's AST (eval.go):
//
//	eval_counts_loss_once: the main loop (outside the waiter closure) calls
//	  <x>.countLost() before the assignment `<x>.state = TaskInit` that resubmits a
//	  lost task, the hand-out sets `<x>.lossUncounted = true`, and the method
//	  Task.countLost exists: each lost run is counted once, by the runner's waiter
//	  or by the evaluation about to resubmit the task, whichever comes first.
//	  false = the former code: only the runner's waiter counts.
//	eval_bookkeeping_guarded_by_runner: the waiter's switch on task.state that
//	  maintains consecutiveLost sits under `if runner`.
func c03LossAccounting(repo string, e *emitter) {
	p, err := loadPkg(repo, "exec")
	if err != nil {
		e.fail("%v", err)
		return
	}
	fd := p.findFunc("Eval")
	if fd == nil || fd.Body == nil {
		e.fail("function exec.Eval not found")
		return
	}
	isSel := func(x ast.Expr, name string) bool {
		sel, ok := x.(*ast.SelectorExpr)
		return ok && sel.Sel.Name == name
	}
	isIdent := func(x ast.Expr, name string) bool {
		id, ok := x.(*ast.Ident)
		return ok && id.Name == name
	}
	var callPos, resetPos token.Pos
	setsFlag := false
	// main loop only: do not descend into function literals
	ast.Inspect(fd.Body, func(n ast.Node) bool {
		switch n := n.(type) {
		case *ast.FuncLit:
			return false
		case *ast.CallExpr:
			if isSel(n.Fun, "countLost") && callPos == token.NoPos {
				callPos = n.Pos()
			}
		case *ast.AssignStmt:
			if len(n.Lhs) == 1 && len(n.Rhs) == 1 {
				if isSel(n.Lhs[0], "state") && isIdent(n.Rhs[0], "TaskInit") && resetPos == token.NoPos {
					resetPos = n.Pos()
				}
				if isSel(n.Lhs[0], "lossUncounted") && isIdent(n.Rhs[0], "true") {
					setsFlag = true
				}
			}
		}
		return true
	})
	once := callPos != token.NoPos && resetPos != token.NoPos && callPos < resetPos && setsFlag &&
		p.findFunc("Task.countLost") != nil
	// the bookkeeping switch inside the waiter closure
	guarded := false
	var walk func(n ast.Node, underRunner bool)
	walk = func(n ast.Node, underRunner bool) {
		ast.Inspect(n, func(m ast.Node) bool {
			switch m := m.(type) {
			case *ast.IfStmt:
				if m == n {
					return true
				}
				walk(m.Body, underRunner || isIdent(m.Cond, "runner"))
				if m.Else != nil {
					walk(m.Else, underRunner)
				}
				return false
			case *ast.SwitchStmt:
				if m.Tag != nil && isSel(m.Tag, "state") && underRunner {
					guarded = true
				}
			}
			return true
		})
	}
	ast.Inspect(fd.Body, func(n ast.Node) bool {
		if fl, ok := n.(*ast.FuncLit); ok {
			walk(fl.Body, false)
			return false
		}
		return true
	})
	b := func(x bool) string {
		if x {
			return "true"
		}
		return "false"
	}
	fmt.Fprintf(&e.b, "Definition eval_counts_loss_once : bool := %s.\n", b(once))
	fmt.Fprintf(&e.b, "Definition eval_bookkeeping_guarded_by_runner : bool := %s.\n", b(guarded))
}

func init() {
	specs = append(specs, spec{"C03_params.v", func(repo string, e *emitter) {
		// task.go: TaskInit < TaskWaiting < TaskRunning < TaskOk < TaskErr < TaskLost
		enumZ(repo, e, "exec", []string{"TaskInit", "TaskWaiting", "TaskRunning", "TaskOk", "TaskErr", "TaskLost"}, "ts_")
		// eval.go:30
		constZ(repo, e, "exec", "maxConsecutiveLost", "max_consecutive_lost")
		// eval.go:324-344: which states Enqueue treats as done / scheduled+counted / traversed
		c03SwitchTables(repo, e, "exec", "state.Enqueue", "enqueue_switches")
		// eval.go:360-375: default / TaskErr / TaskOk / TaskLost
		c03SwitchTables(repo, e, "exec", "state.Return", "return_switches")
		// eval.go:142-158: the runner's consecutive-loss bookkeeping (TaskOk / TaskLost)
		c03SwitchTables(repo, e, "exec", "Eval", "eval_switches")
		// eval.go:112,119,131,135,147: state == TaskLost, == TaskInit, < TaskRunning, < TaskOk
		c03Comparisons(repo, e, "exec", "Eval", "eval_state_cmps")
		// eval.go: who accounts for the loss of a run (0540c52)
		c03LossAccounting(repo, e)
	}})
}

package main

import (
	"fmt"
	"go/ast"
)

// C20: the metrics registry starts with exactly one reserved entry
// (`var metrics = []Metric{zeroMetric{}}`), whose id is the literal returned by
// zeroMetric.metricID; the model's registry size counts that entry and user
// counters therefore start at id 1.
func init() {
	specs = append(specs, spec{"C20_params.v", func(repo string, e *emitter) {
		p, err := loadPkg(repo, "metrics")
		if err != nil {
			e.fail("%v", err)
			return
		}
		init := p.findVarInit("metrics")
		cl, ok := init.(*ast.CompositeLit)
		if !ok {
			e.fail("metrics.metrics is not initialised by a composite literal")
			return
		}
		if at, ok := cl.Type.(*ast.ArrayType); !ok || at.Len != nil {
			e.fail("metrics.metrics is not a slice literal")
			return
		}
		names := ""
		for i, el := range cl.Elts {
			if i > 0 {
				names += "; "
			}
			n := "?"
			if c, ok := el.(*ast.CompositeLit); ok {
				if id, ok := c.Type.(*ast.Ident); ok {
					n = id.Name
				}
			}
			names += fmt.Sprintf("%q%%string", n)
		}
		fmt.Fprintf(&e.b, "Definition metrics_initial_len : Z := %d.\n", len(cl.Elts))
		fmt.Fprintf(&e.b, "Definition metrics_initial_types : list string := [%s].\n", names)
		intLitsInFunc(repo, e, "metrics", "zeroMetric.metricID", "zero_metric_id_literals")

		// Does (*worker).Run reset the worker-side task scope before running the
		// task?  (A statement `task.Scope.Reset(nil)` directly in the function
		// body, i.e. on every path, not inside a branch or a deferred func.)
		// The model's bigmachine flow takes this as its switch.
		px, err := loadPkg(repo, "exec")
		if err != nil {
			e.fail("%v", err)
			return
		}
		fd := px.findFunc("worker.Run")
		if fd == nil || fd.Body == nil {
			e.fail("exec.(*worker).Run not found")
			return
		}
		resets := false
		for _, st := range fd.Body.List {
			es, ok := st.(*ast.ExprStmt)
			if !ok {
				continue
			}
			call, ok := es.X.(*ast.CallExpr)
			if !ok || len(call.Args) != 1 {
				continue
			}
			if id, ok := call.Args[0].(*ast.Ident); !ok || id.Name != "nil" {
				continue
			}
			sel, ok := call.Fun.(*ast.SelectorExpr)
			if !ok || sel.Sel.Name != "Reset" {
				continue
			}
			inner, ok := sel.X.(*ast.SelectorExpr)
			if !ok || inner.Sel.Name != "Scope" {
				continue
			}
			if id, ok := inner.X.(*ast.Ident); ok && id.Name == "task" {
				resets = true
			}
		}
		fmt.Fprintf(&e.b, "Definition worker_run_resets_scope : bool := %v.\n", resets)

		// Is reply.Scope filled on every path of (*worker).Run that answers for a
		// task, including the early return taken when the worker already holds the
		// task as done (or running)?  I.e.: the `defer func() { ... reply.Scope.Reset(
		// &task.Scope) }()` is a statement of the function body that comes BEFORE
		// the `switch task.state`.
		deferIdx, switchIdx := -1, -1
		for i, st := range fd.Body.List {
			switch st := st.(type) {
			case *ast.DeferStmt:
				fl, ok := st.Call.Fun.(*ast.FuncLit)
				if !ok {
					continue
				}
				found := false
				ast.Inspect(fl.Body, func(n ast.Node) bool {
					call, ok := n.(*ast.CallExpr)
					if !ok {
						return true
					}
					sel, ok := call.Fun.(*ast.SelectorExpr)
					if !ok || sel.Sel.Name != "Reset" {
						return true
					}
					inner, ok := sel.X.(*ast.SelectorExpr)
					if !ok || inner.Sel.Name != "Scope" {
						return true
					}
					if id, ok := inner.X.(*ast.Ident); ok && id.Name == "reply" {
						found = true
					}
					return true
				})
				if found && deferIdx < 0 {
					deferIdx = i
				}
			case *ast.SwitchStmt:
				if sel, ok := st.Tag.(*ast.SelectorExpr); ok && sel.Sel.Name == "state" && switchIdx < 0 {
					switchIdx = i
				}
			}
		}
		if switchIdx < 0 {
			e.fail("exec.(*worker).Run: switch on task.state not found")
		}
		fmt.Fprintf(&e.b, "Definition worker_run_reply_filled_on_every_path : bool := %v.\n",
			deferIdx >= 0 && switchIdx >= 0 && deferIdx < switchIdx)
	}})
}

package main

import (
	"fmt"
	"go/ast"
)

// C20: the metrics registry starts with exactly one reserved entry
// (`var metrics = []Metric{zeroMetric{}}`), whose id is the literal returned by
// zeroMetric.metricID; the model's registry size counts that entry and user
// counters therefore start at id 1.
func init() {
	specs = append(specs, spec{"C20_params.v", func(repo string, e *emitter) {
		p, err := loadPkg(repo, "metrics")
		if err != nil {
			e.fail("%v", err)
			return
		}
		init := p.findVarInit("metrics")
		cl, ok := init.(*ast.CompositeLit)
		if !ok {
			e.fail("metrics.metrics is not initialised by a composite literal")
			return
		}
		if at, ok := cl.Type.(*ast.ArrayType); !ok || at.Len != nil {
			e.fail("metrics.metrics is not a slice literal")
			return
		}
		names := ""
		for i, el := range cl.Elts {
			if i > 0 {
				names += "; "
			}
			n := "?"
			if c, ok := el.(*ast.CompositeLit); ok {
				if id, ok := c.Type.(*ast.Ident); ok {
					n = id.Name
				}
			}
			names += fmt.Sprintf("%q%%string", n)
		}
		fmt.Fprintf(&e.b, "Definition metrics_initial_len : Z := %d.\n", len(cl.Elts))
		fmt.Fprintf(&e.b, "Definition metrics_initial_types : list string := [%s].\n", names)
		intLitsInFunc(repo, e, "metrics", "zeroMetric.metricID", "zero_metric_id_literals")
	}})
}

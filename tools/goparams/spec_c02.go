package main

// C02: the switches of the control-plane model coq/C02/Control.v.
//
//   ok_before_assign    in the `err == nil` case of the reply switch of
//                       (*bigmachineExecutor).Run, task.Set(TaskOk) textually
//                       precedes m.Assign(task) (both directly in the clause)
//   setlocation_before_ok  b.setLocation(task, m) precedes task.Set(TaskOk) there
//   run_lost_is_default the `default:` clause of that switch does task.Set(TaskLost)
//   assign_marks_lost_when_machine_lost
//                       (*sliceMachine).Assign: `if s.lost { task.Set(TaskLost) } else { s.tasks[task] = ... }`
//   notice_marks_assigned_lost
//                       (*sliceMachine).Go, after its loop: `s.lost = true`, then a
//                       range over the assigned tasks doing task.Set(TaskLost)
//   max_consecutive_lost  constant maxConsecutiveLost (eval.go)
//   count_lost_kernel   the statements of (*Task).countLost, canonically printed
//   scan_read_retries   second argument of retry.MaxRetries in `var retryPolicy`

import (
	"fmt"
	"go/ast"
	"go/constant"
	"go/token"
)

// c02CallIndex returns the index of the first statement of list that is the
// expression statement printing as text, or -1.
func c02CallIndex(p *pkgInfo, list []ast.Stmt, text string) int {
	for i, st := range list {
		if es, ok := st.(*ast.ExprStmt); ok && c14Print(p, es.X) == text {
			return i
		}
	}
	return -1
}

func c02HasStmt(p *pkgInfo, list []ast.Stmt, text string) bool {
	for _, st := range list {
		if c14Print(p, st) == text {
			return true
		}
	}
	return false
}

func init() {
	specs = append(specs, spec{"C02_params.v", func(repo string, e *emitter) {
		p, err := loadPkg(repo, "exec")
		if err != nil {
			e.fail("%v", err)
			return
		}
		// ---- the reply switch of (*bigmachineExecutor).Run
		fd := p.findFunc("bigmachineExecutor.Run")
		if fd == nil || fd.Body == nil {
			e.fail("exec.(*bigmachineExecutor).Run not found")
			return
		}
		var sw *ast.SwitchStmt
		for _, st := range fd.Body.List { // the last tagless switch at top level whose first case is err == nil
			s, ok := st.(*ast.SwitchStmt)
			if !ok || s.Tag != nil || len(s.Body.List) == 0 {
				continue
			}
			cc := s.Body.List[0].(*ast.CaseClause)
			if len(cc.List) == 1 && c14Print(p, cc.List[0]) == "err == nil" {
				sw = s
			}
		}
		if sw == nil {
			e.fail("Run: reply switch with first case `err == nil` not found")
			return
		}
		okCase := sw.Body.List[0].(*ast.CaseClause)
		iLoc := c02CallIndex(p, okCase.Body, "b.setLocation(task, m)")
		iOk := c02CallIndex(p, okCase.Body, "task.Set(TaskOk)")
		iAsg := c02CallIndex(p, okCase.Body, "m.Assign(task)")
		if iOk < 0 {
			e.fail("Run: `task.Set(TaskOk)` not a statement of the err == nil case")
		}
		if iAsg < 0 {
			e.fail("Run: `m.Assign(task)` not a statement of the err == nil case")
		}
		if iLoc < 0 {
			e.fail("Run: `b.setLocation(task, m)` not a statement of the err == nil case")
		}
		fmt.Fprintf(&e.b, "Definition ok_before_assign : bool := %v.\n", iOk >= 0 && iAsg >= 0 && iOk < iAsg)
		fmt.Fprintf(&e.b, "Definition setlocation_before_ok : bool := %v.\n", iLoc >= 0 && iOk >= 0 && iLoc < iOk)
		lostDefault, nDefault := false, 0
		for _, c := range sw.Body.List {
			cc := c.(*ast.CaseClause)
			if cc.List == nil {
				nDefault++
				lostDefault = c02CallIndex(p, cc.Body, "task.Set(TaskLost)") >= 0
			}
		}
		if nDefault != 1 {
			e.fail("Run: reply switch has no default clause")
		}
		fmt.Fprintf(&e.b, "Definition run_lost_is_default : bool := %v.\n", lostDefault)
		fmt.Fprintf(&e.b, "Definition run_reply_cases : nat := %d%%nat.\n", len(sw.Body.List))

		// ---- (*sliceMachine).Assign
		fa := p.findFunc("sliceMachine.Assign")
		marks := false
		if fa == nil || fa.Body == nil {
			e.fail("exec.(*sliceMachine).Assign not found")
		} else {
			for _, st := range fa.Body.List {
				is, ok := st.(*ast.IfStmt)
				if !ok || is.Init != nil || c14Print(p, is.Cond) != "s.lost" {
					continue
				}
				eb, ok := is.Else.(*ast.BlockStmt)
				if !ok {
					continue
				}
				marks = len(is.Body.List) == 1 && c02CallIndex(p, is.Body.List, "task.Set(TaskLost)") == 0 &&
					len(eb.List) == 1 && c02HasStmt(p, eb.List, "s.tasks[task] = struct{}{}")
			}
		}
		fmt.Fprintf(&e.b, "Definition assign_marks_lost_when_machine_lost : bool := %v.\n", marks)

		// ---- (*sliceMachine).Go: the statements after the monitoring loop
		fg := p.findFunc("sliceMachine.Go")
		notice := false
		if fg == nil || fg.Body == nil {
			e.fail("exec.(*sliceMachine).Go not found")
		} else {
			after := -1
			for i, st := range fg.Body.List {
				if ls, ok := st.(*ast.LabeledStmt); ok {
					if _, isFor := ls.Stmt.(*ast.ForStmt); isFor {
						after = i + 1
					}
				}
			}
			if after < 0 {
				e.fail("sliceMachine.Go: labelled monitoring loop not found")
			} else {
				rest := fg.Body.List[after:]
				setsLost := c02HasStmt(p, rest, "s.lost = true")
				takes := c02HasStmt(p, rest, "tasks := s.tasks") && c02HasStmt(p, rest, "s.tasks = nil")
				ranges := false
				for _, st := range rest {
					rs, ok := st.(*ast.RangeStmt)
					if ok && c14Print(p, rs.X) == "tasks" && rs.Key != nil && c14Print(p, rs.Key) == "task" &&
						len(rs.Body.List) == 1 && c02CallIndex(p, rs.Body.List, "task.Set(TaskLost)") == 0 {
						ranges = true
					}
				}
				notice = setsLost && takes && ranges
			}
		}
		fmt.Fprintf(&e.b, "Definition notice_marks_assigned_lost : bool := %v.\n", notice)

		// ---- the consecutive-loss limit
		v, ok := p.consts["maxConsecutiveLost"]
		if !ok || v.Kind() != constant.Int || constant.Sign(v) < 0 {
			e.fail("integer constant exec.maxConsecutiveLost not found")
		} else {
			fmt.Fprintf(&e.b, "Definition max_consecutive_lost : nat := %s%%nat.\n", v.ExactString())
		}
		c14KernelOf(repo, e, "exec", "Task.countLost", "count_lost_kernel", nil)

		// ---- the retry policy of the scanning reader
		retries := ""
		if call, ok := p.findVarInit("retryPolicy").(*ast.CallExpr); ok &&
			c14Print(p, call.Fun) == "retry.MaxRetries" && len(call.Args) == 2 {
			if bl, ok := call.Args[1].(*ast.BasicLit); ok && bl.Kind == token.INT {
				retries = bl.Value
			}
		}
		if retries == "" {
			e.fail("exec.retryPolicy is not retry.MaxRetries(_, <int literal>)")
		} else {
			fmt.Fprintf(&e.b, "Definition scan_read_retries : nat := %s%%nat.\n", retries)
		}
	}})
}

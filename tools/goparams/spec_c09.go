package main

import (
	"fmt"
	"go/constant"
	"math"
	"math/big"
)

// constFloat emits a floating-point constant in two exact forms: the rational
// value of the literal (<coq>_num / <coq>_den) and the float64 it becomes at run
// time, as <coq>_f64_mant * 2^-<coq>_f64_shift (mant < 2^53).
func constFloat(repo string, e *emitter, dir, name, coq string) {
	p, err := loadPkg(repo, dir)
	if err != nil {
		e.fail("%v", err)
		return
	}
	v, ok := p.consts[name]
	if !ok || (v.Kind() != constant.Float && v.Kind() != constant.Int) {
		e.fail("numeric constant %s.%s not found", dir, name)
		return
	}
	v = constant.ToFloat(v)
	num, den := constant.Num(v), constant.Denom(v)
	if num.Kind() != constant.Int || den.Kind() != constant.Int {
		e.fail("constant %s.%s is not an exact rational", dir, name)
		return
	}
	fmt.Fprintf(&e.b, "Definition %s_num : Z := %s.\nDefinition %s_den : Z := %s.\n", coq, zlit(num), coq, zlit(den))
	f, _ := constant.Float64Val(v)
	if f <= 0 || math.IsInf(f, 0) || math.IsNaN(f) {
		e.fail("constant %s.%s = %v is not a positive finite float64", dir, name, f)
		return
	}
	fr, exp := math.Frexp(f) // f = fr * 2^exp, fr in [0.5, 1)
	mant := new(big.Float).SetMantExp(big.NewFloat(fr), 53)
	mi, acc := mant.Int(nil)
	if acc != big.Exact {
		e.fail("constant %s.%s: float64 mantissa not integral", dir, name)
		return
	}
	fmt.Fprintf(&e.b, "Definition %s_f64_mant : Z := %s.\nDefinition %s_f64_shift : Z := %d.\n", coq, mi.String(), coq, 53-exp)
}

func init() {
	specs = append(specs, spec{"C09_params.v", func(repo string, e *emitter) {
		// exec/combiner.go:36-48
		constFloat(repo, e, "exec", "combiningFrameLoadFactor", "load_factor")
		constZ(repo, e, "exec", "hashSeed", "hash_seed")
		constZ(repo, e, "exec", "hashMaxCapacity", "gen_hash_max_capacity")
		// inline literals: `try := 1`, `c.len += 1`, `n := c.cap * 2`, `hits[i] == 0`
		intLitsInFunc(repo, e, "exec", "combiningFrame.combine", "combine_literals")
		intLitsInFunc(repo, e, "exec", "combiningFrame.added", "added_literals")
		intLitsInFunc(repo, e, "exec", "combiningFrame.Compact", "compact_literals")
		intLitsInFunc(repo, e, "exec", "combiningFrame.make", "make_literals")
		// the default chunk size is the default initial capacity of a combiner's
		// table (combiningFrameInitSize): flag defaults 128 and 1<<8
		intLitsInFunc(repo, e, "internal/defaultsize", "init", "defaultsize_literals")
	}})
}

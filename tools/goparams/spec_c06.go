package main

// C06 (user errors and panics surface as errors from Run): the facts of the
// failure-classification chain that coq/C06/Sites.v is driven by.
//
//   (a) slice.go: for each user-function wrapper, whether a non-nil user error
//       is wrapped Fatal unless it is Temporary (class 2), always (1), never (0)
//       or the other way round (3); every if-condition of the two wrappers that
//       have an error result; the whole body of scanReader.Read.
//   (b) exec/local.go, exec/bigmachine.go: which functions defer a recover(),
//       and what the recover branch does (Fatal severity, maybeTaskFatalErr
//       wrapper, the panic value in the message, assignment to the named result,
//       user code called before the defer is armed).
//   (c) reviseSeverity / maybeTaskFatalErr: order and effect of the cases; what
//       (*worker).Run's deferred function does with the error; how read errors
//       leave (*worker).Run, runCombine and bufferOutput; the local executor's
//       fatal/lost classification.
//   (d) the result switch of (*bigmachineExecutor).Run, clause by clause, and
//       the bigmachine call used for Worker.Run.
//   (e) reshuffle.go: Repartition's partitioner (no range check) and the three
//       executor loops that index with the returned partition.
//   (f) exec/eval.go: the lost-task bound.
//   (g) where the user's combiner is called, and the commit path of a combine
//       buffer (a goroutine without recover).
//
// Pinned by the C06_gen_* lemmas of coq/C06/SitesProofs.v.

import (
	"fmt"
	"go/ast"
	"go/token"
	"strconv"
	"strings"
)

func c06Str(s string) string {
	return "\"" + strings.ReplaceAll(s, "\"", "\"\"") + "\"%string"
}

func c06StrList(ss []string) string {
	q := make([]string, len(ss))
	for i, s := range ss {
		q[i] = c06Str(s)
	}
	return "[" + strings.Join(q, "; ") + "]"
}

func c06StrTable(rows [][]string) string {
	q := make([]string, len(rows))
	for i, r := range rows {
		q[i] = c06StrList(r)
	}
	return "[\n  " + strings.Join(q, ";\n  ") + "]"
}

// c06FuncName renders "recv.name" (or "name").
func c06FuncName(fd *ast.FuncDecl) string {
	if fd.Recv != nil && len(fd.Recv.List) == 1 {
		t := fd.Recv.List[0].Type
		if s, ok := t.(*ast.StarExpr); ok {
			t = s.X
		}
		if id, ok := t.(*ast.Ident); ok {
			return id.Name + "." + fd.Name.Name
		}
	}
	return fd.Name.Name
}

// c06Calls reports whether n contains a call whose callee renders as name
// (function literals included when deep is true).
func c06Calls(n ast.Node, name string, deep bool) bool {
	found := false
	ast.Inspect(n, func(x ast.Node) bool {
		if found {
			return false
		}
		if _, ok := x.(*ast.FuncLit); ok && !deep && x != n {
			return false
		}
		if c, ok := x.(*ast.CallExpr); ok && c15CallName(c.Fun) == name {
			found = true
		}
		return !found
	})
	return found
}

// c06FatalE reports whether n contains a call errors.E(..) one of whose
// arguments is errors.Fatal.
func c06FatalE(n ast.Node) bool {
	found := false
	ast.Inspect(n, func(x ast.Node) bool {
		c, ok := x.(*ast.CallExpr)
		if !ok || c15CallName(c.Fun) != "errors.E" {
			return true
		}
		for _, a := range c.Args {
			if c15CallName(a) == "errors.Fatal" {
				found = true
			}
		}
		return true
	})
	return found
}

// c06TempPolarity looks for errors.IsTemporary(..) in a condition: +1 when it
// is the condition or a disjunct of it, -1 when it appears negated, 0 when absent
// or in another position.
func c06TempPolarity(cond ast.Expr) int {
	switch e := cond.(type) {
	case *ast.ParenExpr:
		return c06TempPolarity(e.X)
	case *ast.CallExpr:
		if c15CallName(e.Fun) == "errors.IsTemporary" {
			return 1
		}
	case *ast.UnaryExpr:
		if e.Op == token.NOT {
			return -c06TempPolarity(e.X)
		}
	case *ast.BinaryExpr:
		if e.Op == token.LOR {
			if p := c06TempPolarity(e.X); p != 0 {
				return p
			}
			return c06TempPolarity(e.Y)
		}
	}
	return 0
}

// c06WrapClass classifies what fn does with a user error:
// 2 = Fatal unless Temporary, 1 = always Fatal, 0 = never wrapped, 3 = inverted.
func c06WrapClass(fd *ast.FuncDecl) int {
	class := -1
	ast.Inspect(fd.Body, func(n ast.Node) bool {
		is, ok := n.(*ast.IfStmt)
		if !ok || class >= 0 {
			return true
		}
		els, ok := is.Else.(*ast.BlockStmt)
		if !ok {
			return true
		}
		pol := c06TempPolarity(is.Cond)
		if pol == 0 {
			return true
		}
		thenW, elseW := c06FatalE(is.Body), c06FatalE(els)
		switch {
		case pol > 0 && !thenW && elseW, pol < 0 && thenW && !elseW:
			class = 2
		case pol > 0 && thenW && !elseW, pol < 0 && !thenW && elseW:
			class = 3
		case thenW && elseW:
			class = 1
		default:
			class = 0
		}
		return true
	})
	if class >= 0 {
		return class
	}
	if c06FatalE(fd.Body) {
		return 1
	}
	return 0
}

type c06Recover struct {
	file, fn                                   string
	fatal, wrapped, msg, setsResult, userFirst bool
}

// c06DirectRecover returns the statements guarded by `if e := recover(); e != nil`
// (or the whole body when recover() is called otherwise) and the name bound to
// the panic value, when body calls recover() outside nested function literals.
func c06DirectRecover(body *ast.BlockStmt) (branch *ast.BlockStmt, val string, ok bool) {
	ast.Inspect(body, func(n ast.Node) bool {
		if ok {
			return false
		}
		if _, lit := n.(*ast.FuncLit); lit {
			return false
		}
		if is, isIf := n.(*ast.IfStmt); isIf && is.Init != nil {
			if as, isAs := is.Init.(*ast.AssignStmt); isAs && len(as.Rhs) == 1 && len(as.Lhs) == 1 {
				if c, isCall := as.Rhs[0].(*ast.CallExpr); isCall && c15CallName(c.Fun) == "recover" {
					if id, isId := as.Lhs[0].(*ast.Ident); isId {
						branch, val, ok = is.Body, id.Name, true
						return false
					}
				}
			}
		}
		if c, isCall := n.(*ast.CallExpr); isCall && c15CallName(c.Fun) == "recover" {
			branch, val, ok = body, "", true
			return false
		}
		return true
	})
	return
}

func c06NamedErrResults(fd *ast.FuncDecl) map[string]bool {
	out := map[string]bool{}
	if fd.Type.Results == nil {
		return out
	}
	for _, f := range fd.Type.Results.List {
		if id, ok := f.Type.(*ast.Ident); ok && id.Name == "error" {
			for _, n := range f.Names {
				out[n.Name] = true
			}
		}
	}
	return out
}

// c06BranchFacts inspects a recover branch. target tells how the result is
// written: a plain identifier ("err") or a dereferenced parameter ("*err").
func c06BranchFacts(branch *ast.BlockStmt, val string, target string) (fatal, wrapped, msg, sets bool) {
	fatal = c06FatalE(branch)
	redeclared := false
	ast.Inspect(branch, func(n ast.Node) bool {
		switch x := n.(type) {
		case *ast.CompositeLit:
			if id, ok := x.Type.(*ast.Ident); ok && id.Name == "maybeTaskFatalErr" {
				wrapped = true
			}
		case *ast.CallExpr:
			if c15CallName(x.Fun) == "fmt.Errorf" && len(x.Args) >= 2 {
				if bl, ok := x.Args[0].(*ast.BasicLit); ok && bl.Kind == token.STRING && strings.Contains(bl.Value, "%v") {
					for _, a := range x.Args[1:] {
						if id, ok := a.(*ast.Ident); ok && val != "" && id.Name == val {
							msg = true
						}
					}
				}
			}
		case *ast.AssignStmt:
			for _, l := range x.Lhs {
				name := ""
				switch t := l.(type) {
				case *ast.Ident:
					name = t.Name
				case *ast.StarExpr:
					if id, ok := t.X.(*ast.Ident); ok {
						name = "*" + id.Name
					}
				}
				if name == target {
					if x.Tok == token.DEFINE {
						redeclared = true
					} else {
						sets = true
					}
				}
			}
		case *ast.ValueSpec:
			for _, nm := range x.Names {
				if nm.Name == strings.TrimPrefix(target, "*") {
					redeclared = true
				}
			}
		}
		return true
	})
	sets = sets && !redeclared
	return
}

var c06UserCalls = map[string]bool{"Read": true, "Partitioner": true, "Combine": true, "Do": true, "Call": true}

// c06UserCodeBefore reports whether fd calls something that can run user code
// (Read, Partitioner, Combine, Do, Call) textually before pos, outside literals.
func c06UserCodeBefore(fd *ast.FuncDecl, pos token.Pos) bool {
	found := false
	ast.Inspect(fd.Body, func(n ast.Node) bool {
		if _, lit := n.(*ast.FuncLit); lit {
			return false
		}
		if c, ok := n.(*ast.CallExpr); ok && c.Pos() < pos {
			if s, ok := c.Fun.(*ast.SelectorExpr); ok && c06UserCalls[s.Sel.Name] {
				found = true
			}
		}
		return true
	})
	return found
}

// c06RecoverOf describes the first deferred recover of fd, if any. helpers maps
// the names of package-level functions that call recover() directly.
func c06RecoverOf(file string, fd *ast.FuncDecl, helpers map[string]*ast.FuncDecl) (c06Recover, bool) {
	var out c06Recover
	have := false
	named := c06NamedErrResults(fd)
	ast.Inspect(fd.Body, func(n ast.Node) bool {
		if have {
			return false
		}
		if _, lit := n.(*ast.FuncLit); lit {
			return false
		}
		ds, ok := n.(*ast.DeferStmt)
		if !ok {
			return true
		}
		switch f := ds.Call.Fun.(type) {
		case *ast.FuncLit:
			branch, val, ok := c06DirectRecover(f.Body)
			if !ok {
				return false
			}
			target := ""
			for r := range named {
				target = r
			}
			// a literal with its own parameter or result of that name shadows it
			if f.Type.Params != nil {
				for _, fl := range f.Type.Params.List {
					for _, nm := range fl.Names {
						if nm.Name == target {
							target = ""
						}
					}
				}
			}
			fatal, wrapped, msg, sets := c06BranchFacts(branch, val, target)
			out = c06Recover{file, c06FuncName(fd), fatal, wrapped, msg, sets && target != "", c06UserCodeBefore(fd, ds.Pos())}
			have = true
		case *ast.Ident:
			h, ok := helpers[f.Name]
			if !ok {
				return false
			}
			branch, val, ok := c06DirectRecover(h.Body)
			if !ok {
				return false
			}
			// the helper must be handed the address of a named error result
			passes := false
			param := ""
			if len(ds.Call.Args) == 1 && h.Type.Params != nil && len(h.Type.Params.List) == 1 && len(h.Type.Params.List[0].Names) == 1 {
				if u, ok := ds.Call.Args[0].(*ast.UnaryExpr); ok && u.Op == token.AND {
					if id, ok := u.X.(*ast.Ident); ok && named[id.Name] {
						passes = true
						param = h.Type.Params.List[0].Names[0].Name
					}
				}
			}
			fatal, wrapped, msg, sets := c06BranchFacts(branch, val, "*"+param)
			out = c06Recover{file, c06FuncName(fd), fatal, wrapped, msg, sets && passes, c06UserCodeBefore(fd, ds.Pos())}
			have = true
		}
		return false
	})
	return out, have
}

// c06Target names the task state a branch ends in.
func c06Target(p *pkgInfo, n ast.Node) string {
	t := "?"
	set := func(s string) {
		if t == "?" {
			t = s
		} else if t != s {
			t = "mixed"
		}
	}
	ast.Inspect(n, func(x ast.Node) bool {
		switch s := x.(type) {
		case *ast.FuncLit:
			return false
		case *ast.CallExpr:
			switch c15CallName(s.Fun) {
			case "task.Error", "task.Errorf":
				set("Err")
			case "task.Set":
				if len(s.Args) == 1 {
					set(strings.TrimPrefix(c14Print(p, s.Args[0]), "Task"))
				}
			}
		case *ast.AssignStmt:
			if len(s.Lhs) == 1 && len(s.Rhs) == 1 && c15CallName(s.Lhs[0]) == "task.state" {
				set(strings.TrimPrefix(c14Print(p, s.Rhs[0]), "Task"))
			}
		}
		return true
	})
	return t
}

// c06ReadErrorExits lists, for every `if err != nil && err != sliceio.EOF {`
// of fd, the first statement of its body.
func c06ReadErrorExits(p *pkgInfo, fd *ast.FuncDecl) []string {
	var out []string
	ast.Inspect(fd.Body, func(n ast.Node) bool {
		if is, ok := n.(*ast.IfStmt); ok && is.Init == nil && c14Print(p, is.Cond) == "err != nil && err != sliceio.EOF" {
			if len(is.Body.List) > 0 {
				out = append(out, c14Print(p, is.Body.List[0]))
			} else {
				out = append(out, "")
			}
		}
		return true
	})
	return out
}

// c06IndexCheck reports whether fd contains `p := shards[i]` and whether some
// condition compares the bare identifier p with <, <=, > or >=.
func c06IndexCheck(p *pkgInfo, fd *ast.FuncDecl) (has, checked bool) {
	ast.Inspect(fd.Body, func(n ast.Node) bool {
		switch s := n.(type) {
		case *ast.AssignStmt:
			if c14Print(p, s) == "p := shards[i]" {
				has = true
			}
		case *ast.BinaryExpr:
			switch s.Op {
			case token.LSS, token.LEQ, token.GTR, token.GEQ:
				for _, side := range []ast.Expr{s.X, s.Y} {
					if id, ok := side.(*ast.Ident); ok && id.Name == "p" {
						checked = true
					}
				}
			}
		}
		return true
	})
	return
}

func init() {
	specs = append(specs, spec{"C06_params.v", func(repo string, e *emitter) {
		root, err := loadPkg(repo, ".")
		if err != nil {
			e.fail("%v", err)
			return
		}
		px, err := loadPkg(repo, "exec")
		if err != nil {
			e.fail("%v", err)
			return
		}
		ps, err := loadPkg(repo, "sortio")
		if err != nil {
			e.fail("%v", err)
			return
		}
		get := func(p *pkgInfo, dir, name string) *ast.FuncDecl {
			fd := p.findFunc(name)
			if fd == nil || fd.Body == nil {
				e.fail("function %s.%s not found", dir, name)
				return nil
			}
			return fd
		}

		// ---- (a) slice.go wrappers
		wrappers := [][2]string{
			{"reader", "readerFuncSliceReader.Read"}, {"writer", "writerFuncReader.Read"},
			{"map", "mapReader.Read"}, {"filter", "filterReader.Read"}, {"flatmap", "flatmapReader.Read"},
			{"fold", "foldReader.compute"}, {"scan", "scanReader.Read"},
		}
		var classRows, boolRows []string
		for _, w := range wrappers {
			fd := get(root, ".", w[1])
			if fd == nil {
				return
			}
			c := c06WrapClass(fd)
			classRows = append(classRows, fmt.Sprintf("(%s, %d)", c06Str(w[0]), c))
			boolRows = append(boolRows, fmt.Sprintf("(%s, %s)", c06Str(w[0]), c15Bool(c == 2)))
		}
		fmt.Fprintf(&e.b, "(* (a) slice.go: 2 = wrapped Fatal unless Temporary, 1 = always Fatal, 0 = not wrapped, 3 = inverted *)\n")
		fmt.Fprintf(&e.b, "Definition wrap_class : list (string * Z) := [%s].\n", strings.Join(classRows, "; "))
		fmt.Fprintf(&e.b, "Definition wraps_fatal_unless_temporary : list (string * bool) := [%s].\n", strings.Join(boolRows, "; "))
		fmt.Fprintf(&e.b, "Definition reader_if_conds : list string := %s.\n", c06StrList(c07IfConds(root.fset, get(root, ".", "readerFuncSliceReader.Read"))))
		fmt.Fprintf(&e.b, "Definition writer_if_conds : list string := %s.\n", c06StrList(c07IfConds(root.fset, get(root, ".", "writerFuncReader.Read"))))
		c14Strings(e, "scan_read_kernel", c14Kernel(root, get(root, ".", "scanReader.Read"), nil))

		// ---- (b) recover sites
		helpers := map[string]*ast.FuncDecl{}
		var helperNames []string
		for _, fn := range []string{"local.go", "bigmachine.go"} {
			f := px.files[fn]
			if f == nil {
				e.fail("exec/%s not found", fn)
				return
			}
			for _, d := range f.Decls {
				if fd, ok := d.(*ast.FuncDecl); ok && fd.Body != nil && fd.Recv == nil {
					if _, _, ok := c06DirectRecover(fd.Body); ok {
						helpers[fd.Name.Name] = fd
						helperNames = append(helperNames, fd.Name.Name)
					}
				}
			}
		}
		fmt.Fprintf(&e.b, "\n(* (b) functions of exec/local.go and exec/bigmachine.go that defer a recover() *)\n")
		fmt.Fprintf(&e.b, "Record rsite := mkRsite { rs_file : string; rs_func : string; rs_fatal : bool; rs_wrapped : bool;\n  rs_msg : bool; rs_sets_result : bool; rs_user_code_before : bool }.\n")
		fmt.Fprintf(&e.b, "Definition recover_helpers : list string := %s.\n", c06StrList(helperNames))
		var rows []string
		for _, fn := range []string{"local.go", "bigmachine.go"} {
			for _, d := range px.files[fn].Decls {
				fd, ok := d.(*ast.FuncDecl)
				if !ok || fd.Body == nil {
					continue
				}
				if r, ok := c06RecoverOf(strings.TrimSuffix(fn, ".go"), fd, helpers); ok {
					rows = append(rows, fmt.Sprintf("mkRsite %s %s %s %s %s %s %s", c06Str(r.file), c06Str(r.fn),
						c15Bool(r.fatal), c15Bool(r.wrapped), c15Bool(r.msg), c15Bool(r.setsResult), c15Bool(r.userFirst)))
				}
			}
		}
		fmt.Fprintf(&e.b, "Definition recover_sites : list rsite := [\n  %s].\n", strings.Join(rows, ";\n  "))

		// ---- (c) classification
		fmt.Fprintf(&e.b, "\n(* (c) reviseSeverity, the deferred function of worker.Run, read-error exits, local classification *)\n")
		if fd := get(px, "exec", "reviseSeverity"); fd != nil {
			c14Strings(e, "revise_kernel", c14Kernel(px, fd, nil))
			var order []string
			unwraps, downgrades, downTo, downTemp := false, false, "", false
			for _, st := range fd.Body.List {
				is, ok := st.(*ast.IfStmt)
				if !ok {
					continue
				}
				if is.Init == nil {
					order = append(order, c14Print(px, is.Cond))
					continue
				}
				as, ok := is.Init.(*ast.AssignStmt)
				if !ok || len(as.Rhs) != 1 {
					continue
				}
				ta, ok := as.Rhs[0].(*ast.TypeAssertExpr)
				if !ok {
					continue
				}
				ty := c14Print(px, ta.Type)
				order = append(order, ty)
				switch ty {
				case "maybeTaskFatalErr":
					if n := len(is.Body.List); n > 0 {
						if rs, ok := is.Body.List[n-1].(*ast.ReturnStmt); ok && len(rs.Results) == 1 {
							if s, ok := rs.Results[0].(*ast.SelectorExpr); ok && s.Sel.Name == "error" {
								unwraps = true
							}
						}
					}
					// does the branch first turn a Temporary inner error into a
					// non-fatal, non-temporary one?  `if errors.IsTemporary(..) {
					// ...; x.Severity = errors.Unknown; return x }`
					for _, b := range is.Body.List {
						inner, ok := b.(*ast.IfStmt)
						if !ok || c06TempPolarity(inner.Cond) <= 0 || len(inner.Body.List) == 0 {
							continue
						}
						sets, returns := false, false
						for _, st := range inner.Body.List {
							if a, ok := st.(*ast.AssignStmt); ok && len(a.Lhs) == 1 && len(a.Rhs) == 1 && a.Tok == token.ASSIGN {
								if l, ok := a.Lhs[0].(*ast.SelectorExpr); ok && l.Sel.Name == "Severity" && c14Print(px, a.Rhs[0]) == "errors.Unknown" {
									sets = true
								}
							}
						}
						_, returns = inner.Body.List[len(inner.Body.List)-1].(*ast.ReturnStmt)
						if sets && returns {
							downTemp = true
						}
					}
				case "*errors.Error":
					if strings.Contains(c14Print(px, is.Cond), "e.Severity == errors.Fatal") {
						for _, b := range is.Body.List {
							if a, ok := b.(*ast.AssignStmt); ok && len(a.Lhs) == 1 && a.Tok == token.ASSIGN && c14Print(px, a.Lhs[0]) == "e.Severity" {
								downgrades = true
								downTo = c14Print(px, a.Rhs[0])
							}
						}
					}
				}
			}
			fmt.Fprintf(&e.b, "Definition revise_order : list string := %s.\n", c06StrList(order))
			fmt.Fprintf(&e.b, "Definition revise_unwraps_maybe_fatal : bool := %s.\n", c15Bool(unwraps))
			fmt.Fprintf(&e.b, "Definition revise_downgrades_plain_fatal : bool := %s.\n", c15Bool(downgrades))
			fmt.Fprintf(&e.b, "Definition revise_downgrade_to : string := %s.\n", c06Str(downTo))
			fmt.Fprintf(&e.b, "Definition worker_downgrades_temporary : bool := %s.\n", c15Bool(downTemp))
		}
		if x := px.findVarInit("fatalErr"); x != nil {
			fmt.Fprintf(&e.b, "Definition fatal_err_init : string := %s.\n", c06Str(c14Print(px, x)))
		} else {
			e.fail("var exec.fatalErr not found")
		}
		wrun, wcomb, bufOut := get(px, "exec", "worker.Run"), get(px, "exec", "worker.runCombine"), get(px, "exec", "bufferOutput")
		lrun, brun := get(px, "exec", "localExecutor.Run"), get(px, "exec", "bigmachineExecutor.Run")
		if wrun == nil || wcomb == nil || bufOut == nil || lrun == nil || brun == nil {
			return
		}
		// the deferred function of (*worker).Run: the statements after the recover branch
		{
			var kern []string
			revises, recordsErr := false, false
			for _, st := range wrun.Body.List {
				ds, ok := st.(*ast.DeferStmt)
				if !ok {
					continue
				}
				lit, ok := ds.Call.Fun.(*ast.FuncLit)
				if !ok {
					continue
				}
				if _, _, ok := c06DirectRecover(lit.Body); !ok {
					continue
				}
				kern = c14Kernel(px, &ast.FuncDecl{Body: lit.Body}, []string{"err"})
				ast.Inspect(lit.Body, func(n ast.Node) bool {
					if a, ok := n.(*ast.AssignStmt); ok && c14Print(px, a) == "err = reviseSeverity(err)" {
						revises = true
					}
					if c, ok := n.(*ast.CallExpr); ok && c15CallName(c.Fun) == "task.Error" {
						recordsErr = true
					}
					return true
				})
				break
			}
			c14Strings(e, "worker_run_defer_kernel", kern)
			fmt.Fprintf(&e.b, "Definition worker_run_revises_severity : bool := %s.\n", c15Bool(revises))
			fmt.Fprintf(&e.b, "Definition worker_run_records_task_error : bool := %s.\n", c15Bool(recordsErr))
		}
		fmt.Fprintf(&e.b, "Definition worker_run_read_error_exits : list string := %s.\n", c06StrList(c06ReadErrorExits(px, wrun)))
		fmt.Fprintf(&e.b, "Definition run_combine_read_error_exits : list string := %s.\n", c06StrList(c06ReadErrorExits(px, wcomb)))
		fmt.Fprintf(&e.b, "Definition buffer_output_read_error_exits : list string := %s.\n", c06StrList(c06ReadErrorExits(px, bufOut)))
		// the zero-column path of bufferOutput: first if of the body, after the defer
		{
			var zero []string
			deferFirst := false
			if len(bufOut.Body.List) > 1 {
				_, deferFirst = bufOut.Body.List[0].(*ast.DeferStmt)
				if is, ok := bufOut.Body.List[1].(*ast.IfStmt); ok {
					zero = append(zero, "if "+c14Print(px, is.Cond))
					for _, st := range is.Body.List {
						zero = append(zero, c14KernelStmt(px, st, nil)...)
					}
				}
			}
			fmt.Fprintf(&e.b, "Definition buffer_output_defer_first : bool := %s.\n", c15Bool(deferFirst))
			c14Strings(e, "buffer_output_zero_column_kernel", zero)
		}
		{
			var cls [][]string
			ast.Inspect(lrun.Body, func(n ast.Node) bool {
				if is, ok := n.(*ast.IfStmt); ok && strings.Contains(c14Print(px, is.Cond), "fatalErr") {
					els := "?"
					if is.Else != nil {
						els = c06Target(px, is.Else)
					}
					cls = append(cls, []string{c14Print(px, is.Cond), c06Target(px, is.Body), els})
				}
				return true
			})
			fmt.Fprintf(&e.b, "Definition local_run_classify : list (list string) := %s.\n", c06StrTable(cls))
		}

		// ---- (d) the result switch of (*bigmachineExecutor).Run
		fmt.Fprintf(&e.b, "\n(* (d) bigmachineExecutor.Run: how Worker.Run is called and the switch on its result *)\n")
		{
			method := ""
			ast.Inspect(brun.Body, func(n ast.Node) bool {
				if c, ok := n.(*ast.CallExpr); ok && len(c.Args) >= 2 {
					if bl, ok := c.Args[1].(*ast.BasicLit); ok && bl.Value == strconv.Quote("Worker.Run") {
						if s, ok := c.Fun.(*ast.SelectorExpr); ok {
							method = s.Sel.Name
						}
					}
				}
				return true
			})
			if method == "" {
				e.fail("bigmachineExecutor.Run: no call of \"Worker.Run\" found")
			}
			fmt.Fprintf(&e.b, "Definition bm_worker_run_call : string := %s.\n", c06Str(method))
			var sw *ast.SwitchStmt
			for _, st := range brun.Body.List {
				if s, ok := st.(*ast.SwitchStmt); ok && s.Tag == nil {
					sw = s
				}
			}
			if sw == nil {
				e.fail("bigmachineExecutor.Run: result switch not found")
			} else {
				var rowsw [][]string
				for _, st := range sw.Body.List {
					cc := st.(*ast.CaseClause)
					cond := "default"
					if len(cc.List) > 0 {
						var cs []string
						for _, x := range cc.List {
							cs = append(cs, c14Print(px, x))
						}
						cond = strings.Join(cs, ", ")
					}
					rowsw = append(rowsw, []string{cond, c06Target(px, &ast.BlockStmt{List: cc.Body})})
				}
				fmt.Fprintf(&e.b, "Definition bm_run_switch : list (list string) := %s.\n", c06StrTable(rowsw))
			}
		}

		// ---- (e) Repartition and the partition-indexed loops
		fmt.Fprintf(&e.b, "\n(* (e) reshuffle.go Repartition: the partitioner stores the user's result unchecked *)\n")
		if fd := get(root, ".", "Repartition"); fd != nil {
			var lit *ast.FuncLit
			ast.Inspect(fd.Body, func(n ast.Node) bool {
				if as, ok := n.(*ast.AssignStmt); ok && len(as.Lhs) == 1 && len(as.Rhs) == 1 && c14Print(root, as.Lhs[0]) == "part" {
					if l, ok := as.Rhs[0].(*ast.FuncLit); ok {
						lit = l
					}
				}
				return true
			})
			if lit == nil {
				e.fail("Repartition: `part := func(...)` not found")
			} else {
				check := false
				ast.Inspect(lit.Body, func(n ast.Node) bool {
					switch x := n.(type) {
					case *ast.IfStmt, *ast.SwitchStmt:
						check = true
					case *ast.CallExpr:
						if nm := c15CallName(x.Fun); nm == "panic" || strings.HasSuffix(nm, "Panicf") || strings.HasSuffix(nm, "Panic") {
							check = true
						}
					}
					return true
				})
				c14Strings(e, "repartition_kernel", c14Kernel(root, &ast.FuncDecl{Body: lit.Body}, []string{"shards", "nshard"}))
				fmt.Fprintf(&e.b, "Definition repartition_range_check : bool := %s.\n", c15Bool(check))
			}
		}
		{
			var rowsI []string
			for _, fd := range []*ast.FuncDecl{bufOut, wrun, wcomb} {
				has, checked := c06IndexCheck(px, fd)
				if has {
					rowsI = append(rowsI, fmt.Sprintf("(%s, %s)", c06Str(c06FuncName(fd)), c15Bool(checked)))
				}
			}
			fmt.Fprintf(&e.b, "Definition partition_index_sites : list (string * bool) := [%s].\n", strings.Join(rowsI, "; "))
		}

		// ---- (f) eval.go
		fmt.Fprintf(&e.b, "\n(* (f) exec/eval.go: the bound on consecutive losses *)\n")
		constZ(repo, e, "exec", "maxConsecutiveLost", "eval_max_consecutive_lost")
		{
			cmp := ""
			if f := px.files["eval.go"]; f != nil {
				ast.Inspect(f, func(n ast.Node) bool {
					if be, ok := n.(*ast.BinaryExpr); ok {
						if id, ok := be.Y.(*ast.Ident); ok && id.Name == "maxConsecutiveLost" {
							cmp = c14Print(px, be)
						}
					}
					return true
				})
			}
			if cmp == "" {
				e.fail("exec/eval.go: comparison with maxConsecutiveLost not found")
			}
			fmt.Fprintf(&e.b, "Definition eval_lost_cmp : string := %s.\n", c06Str(cmp))
			on := ""
			if x := px.findVarInit("enableMaxConsecutiveLost"); x != nil {
				on = c14Print(px, x)
			}
			fmt.Fprintf(&e.b, "Definition eval_lost_bound_enabled : bool := %s.\n", c15Bool(on == "true"))
		}

		// ---- (g) combiner call sites and the commit path
		fmt.Fprintf(&e.b, "\n(* (g) where the user's combiner is called; the commit of a combine buffer *)\n")
		{
			var sites []string
			for _, pk := range []struct {
				dir string
				p   *pkgInfo
			}{{"exec", px}, {"sortio", ps}} {
				for _, fn := range sortedKeys(pk.p.files) {
					for _, d := range pk.p.files[fn].Decls {
						fd, ok := d.(*ast.FuncDecl)
						if !ok || fd.Body == nil {
							continue
						}
						hit := false
						ast.Inspect(fd.Body, func(n ast.Node) bool {
							if c, ok := n.(*ast.CallExpr); ok {
								nm := c15CallName(c.Fun)
								if strings.HasSuffix(nm, ".Combiner.Call") || strings.HasSuffix(nm, ".combiner.Call") {
									hit = true
								}
							}
							return true
						})
						if hit {
							sites = append(sites, pk.dir+"."+c06FuncName(fd))
						}
					}
				}
			}
			fmt.Fprintf(&e.b, "Definition combiner_call_sites : list string := %s.\n", c06StrList(sites))
			commit, wc := get(px, "exec", "worker.CommitCombiner"), get(px, "exec", "worker.writeCombiner")
			wt, rd := get(px, "exec", "combiner.WriteTo"), get(px, "exec", "combiner.Reader")
			car := get(px, "exec", "combineAndReturn")
			if commit == nil || wc == nil || wt == nil || rd == nil || car == nil {
				return
			}
			spawns := false
			ast.Inspect(commit.Body, func(n ast.Node) bool {
				if g, ok := n.(*ast.GoStmt); ok && c15CallName(g.Call.Fun) == "w.writeCombiner" {
					spawns = true
				}
				return true
			})
			_, wcRecovers := c06RecoverOf("bigmachine", wc, helpers)
			litRecovers := false
			var wcRows []string
			ast.Inspect(wc.Body, func(n ast.Node) bool {
				if l, ok := n.(*ast.FuncLit); ok {
					// the merge goroutine: a literal of writeCombiner, described like the other recover sites
					if r, ok := c06RecoverOf("bigmachine", &ast.FuncDecl{Name: wc.Name, Recv: wc.Recv, Type: l.Type, Body: l.Body}, helpers); ok {
						litRecovers = true
						wcRows = append(wcRows, fmt.Sprintf("mkRsite %s %s %s %s %s %s %s", c06Str(r.file), c06Str(r.fn),
							c15Bool(r.fatal), c15Bool(r.wrapped), c15Bool(r.msg), c15Bool(r.setsResult), c15Bool(r.userFirst)))
					}
				}
				return true
			})
			fmt.Fprintf(&e.b, "Definition commit_spawns_write_combiner : bool := %s.\n", c15Bool(spawns))
			fmt.Fprintf(&e.b, "Definition write_combiner_merges_in_goroutine : bool := %s.\n", c15Bool(c06Calls(wc.Body, "g.Go", true) && c06Calls(wc.Body, "combiner.WriteTo", true)))
			fmt.Fprintf(&e.b, "Definition write_combiner_recovers : bool := %s.\n", c15Bool(wcRecovers || litRecovers))
			fmt.Fprintf(&e.b, "Definition combiner_writeto_reads_merge : bool := %s.\n", c15Bool(c06Calls(wt.Body, "c.Reader", true) && c06Calls(rd.Body, "sortio.Reduce", true)))
			fmt.Fprintf(&e.b, "Definition write_combiner_rsite : list rsite := [%s].\n", strings.Join(wcRows, "; "))
			// what becomes of the merge's error: writeCombiner records it, CommitCombiner returns it,
			// runCombine commits its own buffer when the task has no combine key, the driver's Run
			// commits the buffers of its dependencies before it calls Worker.Run
			{
				records := false
				for _, st := range wc.Body.List {
					is, ok := st.(*ast.IfStmt)
					if !ok || is.Init != nil || c14Print(px, is.Cond) != "err == nil" {
						continue
					}
					if els, ok := is.Else.(*ast.BlockStmt); ok {
						a, b := false, false
						for _, x := range els.List {
							switch c14Print(px, x) {
							case "w.combinerErrors[key] = err":
								a = true
							case "w.combinerStates[key] = combinerError":
								b = true
							}
						}
						records = a && b
					}
				}
				fmt.Fprintf(&e.b, "Definition write_combiner_records_error : bool := %s.\n", c15Bool(records))
				ret := ""
				ast.Inspect(commit.Body, func(n ast.Node) bool {
					if cc, ok := n.(*ast.CaseClause); ok && len(cc.List) == 1 && c14Print(px, cc.List[0]) == "combinerError" && len(cc.Body) > 0 {
						ret = c14Print(px, cc.Body[0])
					}
					return true
				})
				fmt.Fprintf(&e.b, "Definition commit_combiner_error_return : string := %s.\n", c06Str(ret))
				ownCond := ""
				ast.Inspect(wcomb.Body, func(n ast.Node) bool {
					if is, ok := n.(*ast.IfStmt); ok && is.Init == nil && c06Calls(is.Body, "w.CommitCombiner", false) {
						for _, st := range is.Body.List {
							if as, ok := st.(*ast.AssignStmt); ok && as.Tok == token.ASSIGN && len(as.Lhs) == 1 && c14Print(px, as.Lhs[0]) == "err" && c06Calls(as, "w.CommitCombiner", false) {
								ownCond = c14Print(px, is.Cond)
							}
						}
					}
					return true
				})
				fmt.Fprintf(&e.b, "Definition run_combine_commit_cond : string := %s.\n", c06Str(ownCond))
				var kern []string
				target, formats, done, returns := "?", false, false, false
				ast.Inspect(brun.Body, func(n ast.Node) bool {
					is, ok := n.(*ast.IfStmt)
					if !ok || is.Init == nil || c14Print(px, is.Init) != "err := g.Wait()" || c14Print(px, is.Cond) != "err != nil" {
						return true
					}
					target = c06Target(px, is.Body)
					for _, st := range is.Body.List {
						kern = append(kern, c14Print(px, st))
					}
					ast.Inspect(is.Body, func(m ast.Node) bool {
						if c, ok := m.(*ast.CallExpr); ok {
							switch c15CallName(c.Fun) {
							case "task.Errorf":
								if len(c.Args) >= 2 {
									if bl, ok := c.Args[0].(*ast.BasicLit); ok && strings.Contains(bl.Value, "%v") {
										for _, a := range c.Args[1:] {
											if id, ok := a.(*ast.Ident); ok && id.Name == "err" {
												formats = true
											}
										}
									}
								}
							case "m.Done":
								done = true
							}
						}
						return true
					})
					if k := len(is.Body.List); k > 0 {
						_, returns = is.Body.List[k-1].(*ast.ReturnStmt)
					}
					return false
				})
				fmt.Fprintf(&e.b, "Definition bm_commit_failure_kernel : list string := %s.\n", c06StrList(kern))
				fmt.Fprintf(&e.b, "Definition bm_commit_failure_target : string := %s.\n", c06Str(target))
				fmt.Fprintf(&e.b, "Definition bm_commit_failure_formats_error : bool := %s.\n", c15Bool(formats))
				fmt.Fprintf(&e.b, "Definition bm_commit_failure_releases_and_returns : bool := %s.\n", c15Bool(done && returns))
				fmt.Fprintf(&e.b, "Definition bm_run_commits_dependencies : bool := %s.\n", c15Bool(c06Calls(brun.Body, "b.commit", true)))
				method := ""
				if bc := px.findFunc("bigmachineExecutor.commit"); bc != nil && bc.Body != nil {
					ast.Inspect(bc.Body, func(n ast.Node) bool {
						if c, ok := n.(*ast.CallExpr); ok && len(c.Args) >= 2 {
							if bl, ok := c.Args[1].(*ast.BasicLit); ok && bl.Value == strconv.Quote("Worker.CommitCombiner") {
								if s, ok := c.Fun.(*ast.SelectorExpr); ok {
									method = s.Sel.Name
								}
							}
						}
						return true
					})
				}
				fmt.Fprintf(&e.b, "Definition bm_commit_call : string := %s.\n", c06Str(method))
			}
			// combineAndReturn hands the buffer back in a deferred send
			back := false
			if len(car.Body.List) > 0 {
				if ds, ok := car.Body.List[0].(*ast.DeferStmt); ok {
					if l, ok := ds.Call.Fun.(*ast.FuncLit); ok && len(l.Body.List) == 1 {
						_, back = l.Body.List[0].(*ast.SendStmt)
					}
				}
			}
			fmt.Fprintf(&e.b, "Definition combine_and_return_hands_back_on_panic : bool := %s.\n", c15Bool(back))
			fmt.Fprintf(&e.b, "Definition run_combine_uses_combine_and_return : bool := %s.\n", c15Bool(c06Calls(wcomb.Body, "combineAndReturn", false)))
			fmt.Fprintf(&e.b, "Definition worker_run_calls_run_combine : bool := %s.\n", c15Bool(c06Calls(wrun.Body, "w.runCombine", false)))
		}
	}})
}

package main

// C15 (task stores, retrying reader): the retry count of exec.retryPolicy, the
// width of the record-count trailer as written inline in store.go, and the two
// control-flow facts the model keeps behind switches (whether a failed trailer
// write makes Commit return nil, whether a failed Seek falls through in Open).
// Pinned by the C15_gen_* lemmas of coq/Properties/C15.v.

import (
	"fmt"
	"go/ast"
	"go/constant"
	"go/token"
)

// c15CallName renders the callee of a call expression ("retry.MaxRetries").
func c15CallName(x ast.Expr) string {
	switch f := x.(type) {
	case *ast.Ident:
		return f.Name
	case *ast.SelectorExpr:
		return c15CallName(f.X) + "." + f.Sel.Name
	}
	return "?"
}

// c15IfWithInitCall finds, in fn's body, the first `if <init>; cond {` whose
// init statement assigns the result of a call to a method/function named sel.
func c15IfWithInitCall(fd *ast.FuncDecl, sel string) *ast.IfStmt {
	var found *ast.IfStmt
	ast.Inspect(fd.Body, func(n ast.Node) bool {
		if found != nil {
			return false
		}
		is, ok := n.(*ast.IfStmt)
		if !ok || is.Init == nil {
			return true
		}
		as, ok := is.Init.(*ast.AssignStmt)
		if !ok || len(as.Rhs) != 1 {
			return true
		}
		call, ok := as.Rhs[0].(*ast.CallExpr)
		if !ok {
			return true
		}
		if s, ok := call.Fun.(*ast.SelectorExpr); ok && s.Sel.Name == sel {
			found = is
			return false
		}
		return true
	})
	return found
}

// c15PassesOffset tells whether fn builds a readRequest composite literal whose
// Offset field (keyed `Offset: x`, or the positional third field) is exactly
// fn's own offset parameter (its last parameter).
func c15PassesOffset(fd *ast.FuncDecl) (found, passes bool) {
	params := fd.Type.Params.List
	if len(params) == 0 {
		return false, false
	}
	last := params[len(params)-1]
	if len(last.Names) == 0 {
		return false, false
	}
	param := last.Names[len(last.Names)-1].Name
	isParam := func(x ast.Expr) bool {
		id, ok := x.(*ast.Ident)
		return ok && id.Name == param
	}
	ast.Inspect(fd.Body, func(n ast.Node) bool {
		cl, ok := n.(*ast.CompositeLit)
		if !ok {
			return true
		}
		if id, ok := cl.Type.(*ast.Ident); !ok || id.Name != "readRequest" {
			return true
		}
		found = true
		keyed := false
		for _, el := range cl.Elts {
			if kv, ok := el.(*ast.KeyValueExpr); ok {
				keyed = true
				if k, ok := kv.Key.(*ast.Ident); ok && k.Name == "Offset" && isParam(kv.Value) {
					passes = true
				}
			}
		}
		if !keyed && len(cl.Elts) == 3 && isParam(cl.Elts[2]) {
			passes = true
		}
		return true
	})
	return found, passes
}

func c15Bool(b bool) string {
	if b {
		return "true"
	}
	return "false"
}

func init() {
	specs = append(specs, spec{"C15_params.v", func(repo string, e *emitter) {
		p, err := loadPkg(repo, "exec")
		if err != nil {
			e.fail("%v", err)
			return
		}
		// var retryPolicy = retry.MaxRetries(retry.Backoff(...), 5)
		init := p.findVarInit("retryPolicy")
		call, ok := init.(*ast.CallExpr)
		if init == nil || !ok {
			e.fail("exec: var retryPolicy with a call initialiser not found")
		} else {
			fmt.Fprintf(&e.b, "Definition retry_policy_ctor : string := \"%s\"%%string.\n", c15CallName(call.Fun))
			last := ""
			if len(call.Args) > 0 {
				if v, ok := p.eval(call.Args[len(call.Args)-1], 0, nil); ok && v.Kind() == constant.Int {
					last = zlit(v)
				}
			}
			if last == "" {
				e.fail("exec: last argument of retryPolicy's initialiser is not an integer constant")
			} else {
				fmt.Fprintf(&e.b, "Definition retry_policy_max_retries : Z := %s.\n", last)
			}
		}
		// the inline 8s: `var b [8]byte`, `info.Size()-8-offset`, `Seek(-8, io.SeekEnd)`
		intLitsInFunc(repo, e, "exec", "fileWriter.Commit", "commit_literals")
		intLitsInFunc(repo, e, "exec", "fileStore.Open", "open_literals")
		intLitsInFunc(repo, e, "exec", "fileStore.Stat", "stat_literals")
		// fileWriter.Commit: `if _, err := w.Write(b[:]); err != nil { return nil }`
		if fd := p.findFunc("fileWriter.Commit"); fd == nil || fd.Body == nil {
			e.fail("exec: fileWriter.Commit not found")
		} else if is := c15IfWithInitCall(fd, "Write"); is == nil || len(is.Body.List) == 0 {
			e.fail("exec: fileWriter.Commit: `if _, err := w.Write(...); ...` not found")
		} else {
			retNil := false
			if rs, ok := is.Body.List[len(is.Body.List)-1].(*ast.ReturnStmt); ok && len(rs.Results) == 1 {
				if id, ok := rs.Results[0].(*ast.Ident); ok && id.Name == "nil" {
					retNil = true
				}
			}
			fmt.Fprintf(&e.b, "Definition commit_trailer_write_failure_returns_nil : bool := %s.\n", c15Bool(retNil))
		}
		// fileStore.Open: `if n, err := r.Seek(...); err != nil || n != offset { if err == nil { return ... } }`
		if fd := p.findFunc("fileStore.Open"); fd == nil || fd.Body == nil {
			e.fail("exec: fileStore.Open not found")
		} else if is := c15IfWithInitCall(fd, "Seek"); is == nil {
			e.fail("exec: fileStore.Open: `if n, err := r.Seek(...); ...` not found")
		} else {
			falls := true
			if n := len(is.Body.List); n > 0 {
				if _, ok := is.Body.List[n-1].(*ast.ReturnStmt); ok {
					falls = false
				}
			}
			fmt.Fprintf(&e.b, "Definition open_seek_failure_falls_through : bool := %s.\n", c15Bool(falls))
		}
		// both real openers must hand the offset they are given to Worker.Read
		for _, fc := range [][2]string{{"evalOpenerAt.OpenAt", "eval_opener_passes_offset"}, {"machineTaskPartition.OpenAt", "machine_opener_passes_offset"}} {
			fd := p.findFunc(fc[0])
			if fd == nil || fd.Body == nil {
				e.fail("exec: %s not found", fc[0])
				continue
			}
			found, passes := c15PassesOffset(fd)
			if !found {
				e.fail("exec: %s: no readRequest literal found", fc[0])
				continue
			}
			fmt.Fprintf(&e.b, "Definition %s : bool := %s.\n", fc[1], c15Bool(passes))
		}
		_ = token.INT
	}})
}

package main

// C05 — what /repo fixes about key hashing and partitioning. The murmur3
// constants live in the vendored module and are pinned by test vectors in
// coq/C05/Proofs.v instead; here we extract
//   - the byte-order literals of hash32/hash64 and the seed literal of Frame.Hash,
//   - the source text of the small functions the model transcribes
//     (hash32, hash64, Frame.Hash, Frame.HashWithSeed, defaultPartitioner),
//   - the per-type dispatch: element type -> body of its Ops.HashWithSeed,
//   - what is assigned to shards[i] by defaultPartitioner and by Repartition,
//   - the conditions under which bufferOutput consults the partitioner.

import (
	"bytes"
	"fmt"
	"go/ast"
	"go/printer"
	"strings"
)

func srcText(p *pkgInfo, n ast.Node) string {
	var b bytes.Buffer
	if err := printer.Fprint(&b, p.fset, n); err != nil {
		return "<unprintable>"
	}
	return strings.Join(strings.Fields(b.String()), " ")
}

func coqString(s string) string {
	return "\"" + strings.ReplaceAll(s, "\"", "\"\"") + "\"%string"
}

// funcBodyText emits the whitespace-normalised source of a function body.
func funcBodyText(repo string, e *emitter, dir, fn, coq string) {
	p, err := loadPkg(repo, dir)
	if err != nil {
		e.fail("%v", err)
		return
	}
	fd := p.findFunc(fn)
	if fd == nil || fd.Body == nil {
		e.fail("function %s.%s not found", dir, fn)
		return
	}
	fmt.Fprintf(&e.b, "Definition %s : string := %s.\n", coq, coqString(srcText(p, fd.Body)))
}

// assignsTo emits, in source order, the right-hand sides assigned to lhs inside fn.
func assignsTo(repo string, e *emitter, dir, fn, lhs, coq string) {
	p, err := loadPkg(repo, dir)
	if err != nil {
		e.fail("%v", err)
		return
	}
	fd := p.findFunc(fn)
	if fd == nil || fd.Body == nil {
		e.fail("function %s.%s not found", dir, fn)
		return
	}
	var rhs []string
	ast.Inspect(fd.Body, func(n ast.Node) bool {
		if as, ok := n.(*ast.AssignStmt); ok && len(as.Lhs) == 1 && len(as.Rhs) == 1 && srcText(p, as.Lhs[0]) == lhs {
			rhs = append(rhs, coqString(as.Tok.String()+" "+srcText(p, as.Rhs[0])))
		}
		return true
	})
	if len(rhs) == 0 {
		e.fail("no assignment to %s in %s.%s", lhs, dir, fn)
	}
	fmt.Fprintf(&e.b, "Definition %s : list string := [%s].\n", coq, strings.Join(rhs, "; "))
}

// condsMentioning emits the if-conditions inside fn whose text mentions what.
func condsMentioning(repo string, e *emitter, dir, fn, what, coq string) {
	p, err := loadPkg(repo, dir)
	if err != nil {
		e.fail("%v", err)
		return
	}
	fd := p.findFunc(fn)
	if fd == nil || fd.Body == nil {
		e.fail("function %s.%s not found", dir, fn)
		return
	}
	var conds []string
	ast.Inspect(fd.Body, func(n ast.Node) bool {
		if is, ok := n.(*ast.IfStmt); ok {
			if t := srcText(p, is.Cond); strings.Contains(t, what) {
				conds = append(conds, coqString(t))
			}
		}
		return true
	})
	fmt.Fprintf(&e.b, "Definition %s : list string := [%s].\n", coq, strings.Join(conds, "; "))
}

// hashDispatch walks every RegisterOps(func(slice []T) Ops {...}) call in the
// package's init functions and emits (T, body of the HashWithSeed closure).
func hashDispatch(repo string, e *emitter, dir, coq string) {
	p, err := loadPkg(repo, dir)
	if err != nil {
		e.fail("%v", err)
		return
	}
	var items []string
	for _, name := range sortedKeys(p.files) {
		for _, d := range p.files[name].Decls {
			fd, ok := d.(*ast.FuncDecl)
			if !ok || fd.Name.Name != "init" || fd.Recv != nil || fd.Body == nil {
				continue
			}
			ast.Inspect(fd.Body, func(n ast.Node) bool {
				call, ok := n.(*ast.CallExpr)
				if !ok {
					return true
				}
				if id, ok := call.Fun.(*ast.Ident); !ok || id.Name != "RegisterOps" || len(call.Args) != 1 {
					return true
				}
				fl, ok := call.Args[0].(*ast.FuncLit)
				if !ok || len(fl.Type.Params.List) != 1 {
					return true
				}
				at, ok := fl.Type.Params.List[0].Type.(*ast.ArrayType)
				if !ok {
					return true
				}
				elem := srcText(p, at.Elt)
				body := ""
				ast.Inspect(fl.Body, func(m ast.Node) bool {
					kv, ok := m.(*ast.KeyValueExpr)
					if !ok {
						return true
					}
					if k, ok := kv.Key.(*ast.Ident); ok && k.Name == "HashWithSeed" {
						if hf, ok := kv.Value.(*ast.FuncLit); ok {
							body = srcText(p, hf.Body)
						} else {
							body = srcText(p, kv.Value)
						}
					}
					return true
				})
				items = append(items, fmt.Sprintf("(%s, %s)", coqString(elem), coqString(body)))
				return false
			})
		}
	}
	if len(items) == 0 {
		e.fail("no RegisterOps calls found in %s", dir)
	}
	fmt.Fprintf(&e.b, "Definition %s : list (string * string) := [\n  %s].\n", coq, strings.Join(items, ";\n  "))
}

// floatNormalisesZero reads, from the float32 and float64 RegisterOps closures,
// the argument of math.Float32bits / math.Float64bits in HashWithSeed: `slice[i]+0`
// (-0.0 is turned into +0.0 before the bits are taken) gives true, plain `slice[i]`
// gives false; anything else, or the two widths disagreeing, is a broken tie.
func floatNormalisesZero(repo string, e *emitter, dir, coq string) {
	p, err := loadPkg(repo, dir)
	if err != nil {
		e.fail("%v", err)
		return
	}
	found := map[string]string{} // Float32bits / Float64bits -> argument text
	for _, name := range sortedKeys(p.files) {
		for _, d := range p.files[name].Decls {
			fd, ok := d.(*ast.FuncDecl)
			if !ok || fd.Name.Name != "init" || fd.Recv != nil || fd.Body == nil {
				continue
			}
			ast.Inspect(fd.Body, func(n ast.Node) bool {
				kv, ok := n.(*ast.KeyValueExpr)
				if !ok {
					return true
				}
				if k, ok := kv.Key.(*ast.Ident); !ok || k.Name != "HashWithSeed" {
					return true
				}
				ast.Inspect(kv.Value, func(m ast.Node) bool {
					call, ok := m.(*ast.CallExpr)
					if !ok || len(call.Args) != 1 {
						return true
					}
					if sel, ok := call.Fun.(*ast.SelectorExpr); ok && (sel.Sel.Name == "Float32bits" || sel.Sel.Name == "Float64bits") {
						if old, dup := found[sel.Sel.Name]; dup {
							e.fail("%s used twice in HashWithSeed closures (%s)", sel.Sel.Name, old)
						}
						found[sel.Sel.Name] = srcText(p, call.Args[0])
					}
					return true
				})
				return false
			})
		}
	}
	a32, ok32 := found["Float32bits"]
	a64, ok64 := found["Float64bits"]
	if !ok32 || !ok64 {
		e.fail("float HashWithSeed closures not found in %s", dir)
		return
	}
	norm := map[string]string{"slice[i]+0": "true", "slice[i] + 0": "true", "slice[i]": "false"}
	v32, k32 := norm[a32]
	v64, k64 := norm[a64]
	if !k32 || !k64 || v32 != v64 {
		e.fail("float hashing left the modelled forms: Float32bits(%s), Float64bits(%s)", a32, a64)
		return
	}
	fmt.Fprintf(&e.b, "Definition %s : bool := %s.\n", coq, v32)
}

// taskLiteralField emits, in source order, the value given to field in every
// Task{...} composite literal inside fn. In (*compiler).compile these are the
// re-shuffle tasks inserted for a reused *Result (first) and the ordinary tasks
// of a pipeline (second); Task.Type carries the key prefix the executors hand to
// the partitioner, so it must be the slice being shuffled, not the type of the
// tasks that produced the result.
func taskLiteralField(repo string, e *emitter, dir, fn, field, coq string) {
	p, err := loadPkg(repo, dir)
	if err != nil {
		e.fail("%v", err)
		return
	}
	fd := p.findFunc(fn)
	if fd == nil || fd.Body == nil {
		e.fail("function %s.%s not found", dir, fn)
		return
	}
	var vals []string
	ast.Inspect(fd.Body, func(n ast.Node) bool {
		cl, ok := n.(*ast.CompositeLit)
		if !ok {
			return true
		}
		if id, ok := cl.Type.(*ast.Ident); !ok || id.Name != "Task" {
			return true
		}
		for _, el := range cl.Elts {
			if kv, ok := el.(*ast.KeyValueExpr); ok {
				if k, ok := kv.Key.(*ast.Ident); ok && k.Name == field {
					vals = append(vals, coqString(srcText(p, kv.Value)))
				}
			}
		}
		return true
	})
	if len(vals) == 0 {
		e.fail("no Task literal with field %s in %s.%s", field, dir, fn)
	}
	fmt.Fprintf(&e.b, "Definition %s : list string := [%s].\n", coq, strings.Join(vals, "; "))
}

func init() {
	specs = append(specs, spec{"C05_params.v", func(repo string, e *emitter) {
		taskLiteralField(repo, e, "exec", "compiler.compile", "Type", "compile_task_types")
		floatNormalisesZero(repo, e, "frame", "float_hash_normalises_zero")
		intLitsInFunc(repo, e, "frame", "hash32", "hash32_literals")
		intLitsInFunc(repo, e, "frame", "hash64", "hash64_literals")
		intLitsInFunc(repo, e, "frame", "Frame.Hash", "frame_hash_literals")
		funcBodyText(repo, e, "frame", "hash32", "hash32_src")
		funcBodyText(repo, e, "frame", "hash64", "hash64_src")
		funcBodyText(repo, e, "frame", "Frame.Hash", "frame_hash_src")
		funcBodyText(repo, e, "frame", "Frame.HashWithSeed", "frame_hash_with_seed_src")
		funcBodyText(repo, e, "exec", "defaultPartitioner", "default_partitioner_src")
		hashDispatch(repo, e, "frame", "hash_dispatch")
		assignsTo(repo, e, "exec", "defaultPartitioner", "shards[i]", "default_partitioner_assigns")
		assignsTo(repo, e, ".", "Repartition", "shards[i]", "repartition_assigns")
		condsMentioning(repo, e, "exec", "bufferOutput", "NumPartition", "buffer_output_partition_conds")
	}})
}

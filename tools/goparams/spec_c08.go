package main

import (
	"fmt"
	"go/ast"
	"go/token"
	"strconv"
	"strings"
)

// strLitsInFunc collects, in source order, the string literals appearing in the
// body of a function: the formats from which compile() builds task names are
// written inline ("inv%d", "_", "inv%d_%s_shuffle", "%s%d").
func strLitsInFunc(repo string, e *emitter, dir, fn, coq string) {
	p, err := loadPkg(repo, dir)
	if err != nil {
		e.fail("%v", err)
		return
	}
	fd := p.findFunc(fn)
	if fd == nil || fd.Body == nil {
		e.fail("function %s.%s not found", dir, fn)
		return
	}
	var lits []string
	ast.Inspect(fd.Body, func(n ast.Node) bool {
		if bl, ok := n.(*ast.BasicLit); ok && bl.Kind == token.STRING {
			s, err := strconv.Unquote(bl.Value)
			if err != nil {
				e.fail("%s.%s: bad string literal %s", dir, fn, bl.Value)
				return true
			}
			for _, r := range s {
				if r < 32 || r > 126 {
					e.fail("%s.%s: non-printable character in %s", dir, fn, bl.Value)
				}
			}
			lits = append(lits, `"`+strings.ReplaceAll(s, `"`, `""`)+`"%string`)
		}
		return true
	})
	fmt.Fprintf(&e.b, "Definition %s : list string := [%s].\n", coq, strings.Join(lits, "; "))
}

// exprString renders a selector chain such as inv.Env.Freeze ("" if the
// expression is anything else).
func exprString(x ast.Expr) string {
	switch x := x.(type) {
	case *ast.Ident:
		return x.Name
	case *ast.SelectorExpr:
		if p := exprString(x.X); p != "" {
			return p + "." + x.Sel.Name
		}
	}
	return ""
}

// callsInFunc lists, in source order, the functions and methods called in the
// body of a function (selector chains and plain identifiers only).
func callsInFunc(repo string, e *emitter, dir, fn, coq string) {
	p, err := loadPkg(repo, dir)
	if err != nil {
		e.fail("%v", err)
		return
	}
	fd := p.findFunc(fn)
	if fd == nil || fd.Body == nil {
		e.fail("function %s.%s not found", dir, fn)
		return
	}
	var calls []string
	ast.Inspect(fd.Body, func(n ast.Node) bool {
		if c, ok := n.(*ast.CallExpr); ok {
			if s := exprString(c.Fun); s != "" {
				calls = append(calls, `"`+s+`"%string`)
			}
		}
		return true
	})
	fmt.Fprintf(&e.b, "Definition %s : list string := [%s].\n", coq, strings.Join(calls, "; "))
}

// compositeFieldsInFunc lists, for every keyed composite literal of type typ
// (T{...} or &T{...}) in the body of a function, the field names it sets, in
// source order.
func compositeFieldsInFunc(repo string, e *emitter, dir, fn, typ, coq string) {
	p, err := loadPkg(repo, dir)
	if err != nil {
		e.fail("%v", err)
		return
	}
	fd := p.findFunc(fn)
	if fd == nil || fd.Body == nil {
		e.fail("function %s.%s not found", dir, fn)
		return
	}
	var lits []string
	ast.Inspect(fd.Body, func(n ast.Node) bool {
		cl, ok := n.(*ast.CompositeLit)
		if !ok || exprString(cl.Type) != typ {
			return true
		}
		var fields []string
		for _, el := range cl.Elts {
			if kv, ok := el.(*ast.KeyValueExpr); ok {
				if k := exprString(kv.Key); k != "" {
					fields = append(fields, `"`+k+`"%string`)
				}
			}
		}
		lits = append(lits, "["+strings.Join(fields, "; ")+"]")
		return true
	})
	fmt.Fprintf(&e.b, "Definition %s : list (list string) := [%s].\n", coq, strings.Join(lits, "; "))
}

func init() {
	specs = append(specs, spec{"C08_params.v", func(repo string, e *emitter) {
		// task name formats ("inv%d", "_", "inv%d_%s_shuffle") and separators of (*compiler).compile
		strLitsInFunc(repo, e, "exec", "compiler.compile", "compile_string_literals")
		// "%s%d" of (taskNamer).New, and its `c == 0`
		strLitsInFunc(repo, e, "exec", "taskNamer.New", "namer_string_literals")
		intLitsInFunc(repo, e, "exec", "taskNamer.New", "namer_int_literals")
		// partitioner: numPartition == 0 means "not a shuffle", NumPartition() is then 1
		intLitsInFunc(repo, e, "exec", "partitioner.IsShuffle", "is_shuffle_literals")
		intLitsInFunc(repo, e, "exec", "partitioner.NumPartition", "num_partition_literals")
		// fix sites. (1) the Task literals of compile: the first is the re-shuffle
		// task over a Result, which must set NumPartition, Partitioner, Combiner
		// and CombineKey like the second (the pipeline task) does.
		compositeFieldsInFunc(repo, e, "exec", "compiler.compile", "Task", "compile_task_literals")
		// (2) addInvocation must freeze the environment it stores for transport
		callsInFunc(repo, e, "exec", "bigmachineExecutor.addInvocation", "add_invocation_calls")
		// TaskDep.NumTask: no head -> 0, a group -> its size, else 1
		intLitsInFunc(repo, e, "exec", "TaskDep.NumTask", "num_task_literals")
	}})
}

// Command goparams is the translator half of the source tie: it parses /repo's
// Go sources (go/parser; constants folded with go/constant) and regenerates
// coq/Gen/*.v on every run, so the Coq theorems are re-checked against the
// constants, enum orders and integer kernels the code has *now*.
//
// What is extracted is listed in spec.go. If something listed there can no
// longer be found or leaves the supported subset, goparams fails loudly (exit 1)
// and the check reports a broken tie.
package main

import (
	"flag"
	"fmt"
	"go/ast"
	"go/constant"
	"go/parser"
	"go/token"
	"os"
	"path/filepath"
	"sort"
	"strings"
)

type pkgInfo struct {
	fset   *token.FileSet
	files  map[string]*ast.File
	consts map[string]constant.Value // package-level constants, folded
	order  []string
}

var pkgs = map[string]*pkgInfo{}

func loadPkg(repo, dir string) (*pkgInfo, error) {
	if p, ok := pkgs[dir]; ok {
		return p, nil
	}
	p := &pkgInfo{fset: token.NewFileSet(), files: map[string]*ast.File{}, consts: map[string]constant.Value{}}
	ents, err := os.ReadDir(filepath.Join(repo, dir))
	if err != nil {
		return nil, err
	}
	for _, e := range ents {
		n := e.Name()
		if !strings.HasSuffix(n, ".go") || strings.HasSuffix(n, "_test.go") || strings.HasPrefix(n, "verif_") {
			continue
		}
		f, err := parser.ParseFile(p.fset, filepath.Join(repo, dir, n), nil, parser.SkipObjectResolution)
		if err != nil {
			return nil, err
		}
		if f.Name.Name == "main" && dir != "." && !strings.HasPrefix(dir, "cmd") {
			continue // generators such as frame/genops.go
		}
		p.files[n] = f
	}
	// fold constants: iterate to a fixed point so that forward references resolve
	for round := 0; round < 4; round++ {
		for _, n := range sortedKeys(p.files) {
			f := p.files[n]
			for _, d := range f.Decls {
				gd, ok := d.(*ast.GenDecl)
				if !ok || gd.Tok != token.CONST {
					continue
				}
				var lastExprs []ast.Expr
				for iota, s := range gd.Specs {
					vs := s.(*ast.ValueSpec)
					exprs := vs.Values
					if len(exprs) == 0 {
						exprs = lastExprs
					} else {
						lastExprs = exprs
					}
					for i, name := range vs.Names {
						if i >= len(exprs) {
							continue
						}
						if v, ok := p.eval(exprs[i], int64(iota), nil); ok {
							if _, seen := p.consts[name.Name]; !seen {
								p.order = append(p.order, name.Name)
							}
							p.consts[name.Name] = v
						}
					}
				}
			}
		}
	}
	pkgs[dir] = p
	return p, nil
}

func sortedKeys(m map[string]*ast.File) []string {
	ks := make([]string, 0, len(m))
	for k := range m {
		ks = append(ks, k)
	}
	sort.Strings(ks)
	return ks
}

// eval folds a constant expression. env gives values of local names.
func (p *pkgInfo) eval(e ast.Expr, iota int64, env map[string]constant.Value) (constant.Value, bool) {
	switch e := e.(type) {
	case *ast.BasicLit:
		v := constant.MakeFromLiteral(e.Value, e.Kind, 0)
		return v, v.Kind() != constant.Unknown
	case *ast.Ident:
		if e.Name == "iota" {
			return constant.MakeInt64(iota), true
		}
		if v, ok := env[e.Name]; ok {
			return v, true
		}
		v, ok := p.consts[e.Name]
		return v, ok
	case *ast.ParenExpr:
		return p.eval(e.X, iota, env)
	case *ast.UnaryExpr:
		x, ok := p.eval(e.X, iota, env)
		if !ok {
			return nil, false
		}
		return constant.UnaryOp(e.Op, x, 0), true
	case *ast.BinaryExpr:
		x, ok1 := p.eval(e.X, iota, env)
		y, ok2 := p.eval(e.Y, iota, env)
		if !ok1 || !ok2 {
			return nil, false
		}
		switch e.Op {
		case token.SHL, token.SHR:
			s, ok := constant.Uint64Val(y)
			if !ok {
				return nil, false
			}
			return constant.Shift(x, e.Op, uint(s)), true
		case token.QUO:
			if x.Kind() == constant.Int && y.Kind() == constant.Int {
				return constant.BinaryOp(x, token.QUO_ASSIGN, y), true // integer division
			}
		}
		return constant.BinaryOp(x, e.Op, y), true
	case *ast.CallExpr: // conversions such as uint32(7), time.Duration(..) are transparent
		if len(e.Args) == 1 {
			return p.eval(e.Args[0], iota, env)
		}
	case *ast.SelectorExpr:
		// time.Second etc.
		if x, ok := e.X.(*ast.Ident); ok && x.Name == "time" {
			units := map[string]int64{"Nanosecond": 1, "Microsecond": 1e3, "Millisecond": 1e6, "Second": 1e9, "Minute": 60e9, "Hour": 3600e9}
			if u, ok := units[e.Sel.Name]; ok {
				return constant.MakeInt64(u), true
			}
		}
	}
	return nil, false
}

func (p *pkgInfo) findFunc(name string) *ast.FuncDecl {
	recv, fn := "", name
	if i := strings.Index(name, "."); i >= 0 {
		recv, fn = name[:i], name[i+1:]
	}
	for _, n := range sortedKeys(p.files) {
		for _, d := range p.files[n].Decls {
			fd, ok := d.(*ast.FuncDecl)
			if !ok || fd.Name.Name != fn {
				continue
			}
			r := ""
			if fd.Recv != nil && len(fd.Recv.List) == 1 {
				t := fd.Recv.List[0].Type
				if s, ok := t.(*ast.StarExpr); ok {
					t = s.X
				}
				if id, ok := t.(*ast.Ident); ok {
					r = id.Name
				}
			}
			if r == recv {
				return fd
			}
		}
	}
	return nil
}

func (p *pkgInfo) findVarInit(name string) ast.Expr {
	for _, n := range sortedKeys(p.files) {
		for _, d := range p.files[n].Decls {
			gd, ok := d.(*ast.GenDecl)
			if !ok || gd.Tok != token.VAR {
				continue
			}
			for _, s := range gd.Specs {
				vs := s.(*ast.ValueSpec)
				for i, nm := range vs.Names {
					if nm.Name == name && i < len(vs.Values) {
						return vs.Values[i]
					}
				}
			}
		}
	}
	return nil
}

type emitter struct {
	b    strings.Builder
	errs []string
}

func (e *emitter) fail(format string, args ...interface{}) {
	e.errs = append(e.errs, fmt.Sprintf(format, args...))
}

func zlit(v constant.Value) string {
	s := v.ExactString()
	if strings.HasPrefix(s, "-") {
		return "(" + s + ")"
	}
	return s
}

func main() {
	repo := flag.String("repo", "/repo", "repository root")
	out := flag.String("out", "/verif/coq/Gen", "output directory")
	flag.Parse()
	if err := os.MkdirAll(*out, 0o755); err != nil {
		fmt.Fprintln(os.Stderr, err)
		os.Exit(1)
	}
	failed := false
	for _, g := range specs {
		e := &emitter{}
		fmt.Fprintf(&e.b, "(* GENERATED by tools/goparams from /repo on every run. Do not edit. *)\nFrom Coq Require Import ZArith List String.\nImport ListNotations.\nLocal Open Scope Z_scope.\n\n")
		func() {
			// a spec that trips over source it does not expect must not take the other
			// properties' ties down with it: its panic is that spec's translator error
			defer func() {
				if r := recover(); r != nil {
					e.errs = append(e.errs, fmt.Sprintf("translator panic: %v", r))
				}
			}()
			g.gen(*repo, e)
		}()
		path := filepath.Join(*out, g.file)
		if len(e.errs) > 0 {
			failed = true
			for _, m := range e.errs {
				fmt.Fprintf(os.Stderr, "goparams: %s: %s\n", g.file, m)
			}
			// leave a file that cannot satisfy the proofs, so the broken tie is visible to make as well
			fmt.Fprintf(&e.b, "\n(* translator errors:\n%s\n*)\nDefinition goparams_failed : bool := true.\n", strings.Join(e.errs, "\n"))
		}
		txt := e.b.String()
		if old, err := os.ReadFile(path); err == nil && string(old) == txt {
			continue
		}
		if err := os.WriteFile(path, []byte(txt), 0o644); err != nil {
			fmt.Fprintln(os.Stderr, err)
			os.Exit(1)
		}
	}
	if failed {
		os.Exit(1)
	}
}

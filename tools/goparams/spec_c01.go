package main

func init() {
	specs = append(specs, spec{"C01_params.v", func(repo string, e *emitter) {
		// slice.go constShard: how Const splits its rows over shards
		funcZ(repo, e, ".", "constShard", "const_shard_go")
	}})
}

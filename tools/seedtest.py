#!/usr/bin/env python3
"""seedtest.py [--also Cxx,Cyy] SEED_DIR...: apply each seeded change to /repo, run the quick check of the
property it breaks (and any --also checks), undo the change, and record the outcome in SEED_DIR/detection.json."""
import json, os, subprocess, sys, time
args = sys.argv[1:]
also = []
if args and args[0] == "--also":
    also = args[1].split(","); args = args[2:]
tier = os.environ.get("SEED_TIER", "quick")
for sd in args:
    sd = os.path.abspath(sd)
    meta = json.load(open(f"{sd}/meta.json"))
    pid = meta["property"]
    assert subprocess.run(["git", "-C", "/repo", "status", "--porcelain", "--untracked-files=no"], stdout=subprocess.PIPE).stdout.strip() == b"", "/repo not clean"
    subprocess.check_call(["git", "-C", "/repo", "apply", f"{sd}/patch.diff"])
    res = {}
    try:
        for p in [pid] + also:
            t0 = time.time()
            r = subprocess.run(["python3", "/verif/tools/check.py", p, "--tier", tier], cwd="/verif", env=dict(os.environ, VERIF_OUTROOT="/verif/work/seedtest"), stdout=subprocess.PIPE, stderr=subprocess.STDOUT)
            out = r.stdout.decode("utf-8", "replace")
            viol = [l for l in out.splitlines() if l.startswith("VIOLATION")]
            summ = [l for l in out.splitlines() if l.startswith(f"[{p}] tier")]
            res[p] = {"exit": r.returncode, "violation_lines": viol, "summary": summ[-1] if summ else out[-300:], "wall_s": round(time.time() - t0)}
    finally:
        subprocess.check_call(["git", "-C", "/repo", "checkout", "--", "."])
    det = {"tier": tier, "repo_head": subprocess.run(["git", "-C", "/repo", "rev-parse", "--short", "HEAD"], stdout=subprocess.PIPE).stdout.decode().strip(),
           "checks": res, "detected_by": [p for p, v in res.items() if v["exit"] == 1 and v["violation_lines"]]}
    json.dump(det, open(f"{sd}/detection.json", "w"), indent=1)
    print(os.path.basename(sd), "DETECTED by " + ",".join(det["detected_by"]) if det["detected_by"] else "MISSED", {p: v["summary"][-110:] for p, v in res.items()})

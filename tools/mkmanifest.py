#!/usr/bin/env python3
"""Regenerate /verif/MANIFEST.json from tools/props.json (one source of truth)."""
import json, subprocess
V = "/verif"
props = json.load(open(f"{V}/tools/props.json"))
allp = [json.loads(l) for l in open(f"{V}/properties.jsonl")]
hooks = subprocess.run(["git", "-C", "/repo", "log", "--format=%H %s"], stdout=subprocess.PIPE).stdout.decode().splitlines()
hook_commits = [l.split()[0] for l in hooks if l.split(" ", 1)[1].startswith("verif hooks")]
checks, na = [], []
for p in allp:
    pid = p["id"]
    c = props.get(pid)
    if not c or c.get("disabled"):
        na.append({"property_id": pid, "reason": (c or {}).get("na_reason", "not yet covered by a Coq model with a checked tie to the source; no check is claimed rather than switching technique")})
        continue
    checks.append({
        "property_id": pid,
        "quick_cmd": f"python3 tools/check.py {pid} --tier quick",
        "thorough_cmd": f"python3 tools/check.py {pid} --tier thorough",
        "evidence_file": f"/verif/evidence/{pid}.json",
        "replay_cmd_template": f"python3 tools/check.py {pid} --replay {{path}}",
        "engine": "coq-model+correspondence",
        "level_claimed": {"category": "proof", "text": c.get("level_text", ""), "design_ref": c.get("design_ref", f"DESIGN.md section 7, {pid}")},
        "level_note": c.get("level_note", ""),
        "technique": c.get("technique", "Coq 8.16 theorems over an executable Gallina model; model tied to /repo by the goparams translator and a vm_compute correspondence check against the real code"),
    })
m = {
    "version": 1,
    "setup_cmd": "bash tools/setup.sh",
    "hooks": {"guard": "verif", "enable": "go build -tags verif (add-only files exec/verif_hooks.go etc., //go:build verif)",
              "baseline_off_cmd": "cd /repo && for m in $(cat /w/out/gomods.txt); do MF=$(cd /repo/$m && . /w/out/goenv.sh && gomodflag); (cd /repo/$m && go test $MF -json -vet=off -count=1 -timeout 25m ./...); done",
              "source_commits": hook_commits, "add_only": True},
    "engines": [{"name": "coq-model+correspondence", "path": "/verif/tools/check.py",
                 "serves_properties": [c["property_id"] for c in checks],
                 "kind_free_text": "Rocq/Coq 8.16.1 development under /verif/coq (models, specs, proofs, property files) + Go drivers under /verif/harness that run /repo's working tree and emit case files judged inside Coq by vm_compute + tools/goparams translator regenerating coq/Gen from the Go AST"}],
    "checks": checks,
    "not_applicable": na,
    "notes": "All checks: exit 0 / exit 1 with 'VIOLATION property=<id> replay=<path>' (suffix no-failing-input-found when a proof obligation or the correspondence broke but no concrete failing input was found). Known findings: /verif/known_findings.json. VERIF_SEED and VERIF_TIER are honoured.",
}
json.dump(m, open(f"{V}/MANIFEST.json", "w"), indent=1)
print(f"{len(checks)} checks, {len(na)} not_applicable")

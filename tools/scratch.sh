#!/bin/bash
# scratch.sh new DIR            copy /repo's working tree (no .git) to DIR
# scratch.sh build DIR PKG OUT  build harness package PKG (e.g. ./c11) against DIR instead of /repo
# scratch.sh rm DIR
set -e
. /verif/tools/env.sh
cmd=$1; dir=$2
case "$cmd" in
 new)
  mkdir -p "$dir"; rsync -a --exclude .git /repo/ "$dir/repo/";;
 build)
  pkg=$3; out=$4
  sed "s#=> /repo#=> $dir/repo#" /verif/harness/go.mod > "$dir/go.mod"
  cp /verif/harness/go.sum "$dir/go.sum"
  sed "s#\"/repo/exec/config.go\"#\"$dir/repo/exec/config.go\"#" /verif/shim/overlay.json > "$dir/overlay.json"
  (cd /verif/harness && go build -modfile="$dir/go.mod" -tags verif -gcflags=all=-lang=go1.23 -overlay "$dir/overlay.json" -o "$out" "$pkg");;
 rm)
  case "$dir" in /tmp/*) rm -rf "$dir";; *) echo "refusing to remove $dir"; exit 1;; esac;;
 *) echo "usage: scratch.sh new|build|rm DIR ..."; exit 2;;
esac

#!/usr/bin/env python3
"""confirm_seed.py SEED_DIR...: in a scratch worktree of /repo HEAD confirm that the seeded change
compiles, passes the baseline suite, and that its demonstration fails with the change and passes without.
Writes SEED_DIR/confirmed.json."""
import json, os, re, subprocess, sys, shutil, glob
BK = "/verif/seeded/_buildkit/bk.sh"
def sh(cmd, timeout=1800):
    p = subprocess.run(cmd, shell=True, stdout=subprocess.PIPE, stderr=subprocess.STDOUT, timeout=timeout)
    return p.returncode, p.stdout.decode("utf-8", "replace")
def demo(wt, sd, meta):
    d = f"{sd}/demo"
    if os.path.exists(f"{d}/main.go"):
        return sh(f"{BK} run {wt} {d}")
    tests = glob.glob(f"{d}/*_test.go")
    m = re.search(r"test \S+ (\S+) -run '?([A-Za-z0-9_|]+)'?", meta.get("demo_cmd", ""))
    pkg, pat = (m.group(1), m.group(2)) if m else ("./exec", ".")
    for t in tests:
        shutil.copy(t, f"{wt}/{pkg}/")
    rc, out = sh(f"{BK} test {wt} {pkg} -run '{pat}' -count=1")
    for t in tests:
        os.remove(f"{wt}/{pkg}/{os.path.basename(t)}")
    return rc, out
for sd in sys.argv[1:]:
    sd = os.path.abspath(sd)
    meta = json.load(open(f"{sd}/meta.json"))
    wt = f"/tmp/wt-confirm-{os.path.basename(sd)}"
    sh(f"git -C /repo worktree remove --force {wt}")
    rc, out = sh(f"git -C /repo worktree add -q {wt} HEAD")
    res = {"repo_head": sh("git -C /repo rev-parse --short HEAD")[1].strip()}
    try:
        rc, out = demo(wt, sd, meta); res["demo_clean"] = "pass" if rc == 0 else "FAIL"; res["demo_clean_tail"] = out[-300:]
        rc, out = sh(f"git -C {wt} apply {sd}/patch.diff"); res["apply"] = "ok" if rc == 0 else out[-300:]
        rc, out = sh(f"{BK} baseline {wt}"); res["baseline_with_patch"] = "pass" if rc == 0 else "FAIL: " + out[-300:]
        rc, out = sh(f"{BK} test {wt} ./exec -run XXX_NONE -count=1 && {BK} test {wt} . -run XXX_NONE -count=1"); res["builds_with_patch"] = "ok" if rc == 0 else out[-300:]
        rc, out = demo(wt, sd, meta); res["demo_mutated"] = "fails" if rc != 0 else "PASSES"; res["demo_mutated_tail"] = out[-400:]
    finally:
        sh(f"git -C /repo worktree remove --force {wt}")
    res["confirmed"] = res.get("demo_clean") == "pass" and res.get("apply") == "ok" and res.get("baseline_with_patch") == "pass" and res.get("builds_with_patch") == "ok" and res.get("demo_mutated") == "fails"
    json.dump(res, open(f"{sd}/confirmed.json", "w"), indent=1)
    print(os.path.basename(sd), "CONFIRMED" if res["confirmed"] else "NOT CONFIRMED", {k: v for k, v in res.items() if not k.endswith("tail")})

# sourced by every script: offline Go environment for the harness module
export GOFLAGS=-mod=mod GOPROXY=off GOSUMDB=off GOTOOLCHAIN=local
export VERIF=/verif

#!/usr/bin/env python3
"""seedtable.py: markdown table of the seeded changes and what caught them (from seeded/*/meta.json, detection.json)."""
import json, glob, os
rows = []
for d in sorted(glob.glob("/verif/seeded/C*")):
    sid = os.path.basename(d)
    m = json.load(open(f"{d}/meta.json"))
    det = json.load(open(f"{d}/detection.json")) if os.path.exists(f"{d}/detection.json") else None
    if os.path.exists(f"{d}/OBSOLETE.md"):
        how = f"obsolete after a repair (detected by {','.join(det['detected_by'])} at {det['repo_head']})" if det else "obsolete"
    elif det is None:
        how = "not tried"
    elif det["detected_by"]:
        kinds = []
        for p in det["detected_by"]:
            v = det["checks"][p]
            kinds.append(p + (" (no-failing-input-found)" if any("no-failing-input-found" in l for l in v["violation_lines"]) else " (replay)"))
        how = ", ".join(kinds) + f" @ {det['repo_head']}"
    else:
        how = "MISSED by " + ",".join(det["checks"]) + f" @ {det['repo_head']}"
    title = m.get("title", "").replace("|", "/")
    rows.append(f"| {sid} | {title[:150]} | {', '.join(m.get('files_changed', []))} | {how} |")
print("| seed | change | files | caught by |\n|---|---|---|---|")
print("\n".join(rows))
